//! Directory-pack scenarios (C02, C03, C15, also feeds C14): schema + entries through the public
//! creator API, every value logged as written, then read back through the public reader API.
use crate::out::{catch, emit};
use jbk::creator::schema;
use jbk::reader::{CompareTrait, EntryTrait, Range};
use jubako as jbk;
use serde::Deserialize;
use serde_json::{json, Value as J};
use std::cell::RefCell;
use std::cmp::Ordering;
use std::collections::HashMap;
use std::sync::Arc;

#[derive(Deserialize, Clone)]
pub struct Prop {
    pub name: String,
    #[serde(rename = "type")]
    pub typ: String, // uint | sint | array | content | ref
    #[serde(default)]
    pub prefix: usize,
    #[serde(default)]
    pub store: usize,
}

#[derive(Deserialize, Clone)]
pub struct Variant {
    pub name: String,
    pub props: Vec<Prop>,
}

#[derive(Deserialize, Clone)]
pub struct SchemaD {
    pub common: Vec<Prop>,
    #[serde(default)]
    pub variants: Vec<Variant>,
    #[serde(default)]
    pub sort: Option<Vec<String>>,
}

#[derive(Deserialize, Clone)]
pub struct EntryD {
    #[serde(default)]
    pub variant: Option<String>,
    /// name -> {"u":n} | {"s":n} | {"a":[..]} | {"c":[pack,idx]} | {"r":entry index}
    pub values: HashMap<String, J>,
}

#[derive(Deserialize, Clone)]
pub struct IndexD {
    pub name: String,
    pub offset: u32,
    pub count: u32,
    #[serde(default)]
    pub free_data: Vec<u8>,
    #[serde(default)]
    pub index_key: u8,
}

#[derive(Deserialize, Clone)]
pub struct FindD {
    pub index: String,
    pub props: Vec<String>,
    pub values: Vec<J>,
}

#[derive(Deserialize, Clone)]
pub struct Scn {
    pub id: String,
    pub dir: String,
    pub stores: Vec<String>, // plain | indexed
    pub schema: SchemaD,
    pub entries: Vec<EntryD>,
    pub indexes: Vec<IndexD>,
    #[serde(default)]
    pub finds: Vec<FindD>,
    #[serde(default)]
    pub read_stride: u32,
    #[serde(default)]
    pub free_data: Vec<u8>,
}

fn leak(s: &str) -> &'static str {
    Box::leak(s.to_string().into_boxed_str())
}

fn mk_prop(p: &Prop, stores: &[jbk::creator::StoreHandle]) -> schema::Property<&'static str> {
    let n = leak(&p.name);
    match p.typ.as_str() {
        "uint" | "ref" => schema::Property::new_uint(n),
        "sint" | "sref" => schema::Property::new_sint(n),
        "content" => schema::Property::new_content_address(n),
        "array" => schema::Property::new_array(p.prefix, stores[p.store].clone(), n),
        t => panic!("unknown property type {t}"),
    }
}

pub fn to_value(v: &J, handles: &[jbk::Bound<jbk::EntryIdx>]) -> jbk::Value {
    if let Some(u) = v.get("u") {
        jbk::Value::Unsigned(u.as_u64().expect("u64"))
    } else if let Some(s) = v.get("s") {
        jbk::Value::Signed(s.as_i64().expect("i64"))
    } else if let Some(u) = v.get("uw") {
        // the same value given lazily (Word): read at finalisation time
        jbk::Value::UnsignedWord(u.as_u64().expect("u64").into())
    } else if let Some(s) = v.get("sw") {
        jbk::Value::SignedWord(s.as_i64().expect("i64").into())
    } else if let Some(a) = v.get("a") {
        let bytes: Vec<u8> = a
            .as_array()
            .unwrap()
            .iter()
            .map(|b| b.as_u64().unwrap() as u8)
            .collect();
        jbk::Value::Array(bytes.as_slice().into())
    } else if let Some(c) = v.get("c") {
        let c = c.as_array().unwrap();
        jbk::Value::Content(jbk::ContentAddress::new(
            jbk::PackId::from(c[0].as_u64().unwrap() as u16),
            jbk::ContentIdx::from(c[1].as_u64().unwrap() as u32),
        ))
    } else if let Some(r) = v.get("r") {
        jbk::Value::UnsignedWord(handles[r.as_u64().unwrap() as usize].clone().into())
    } else if let Some(r) = v.get("rs") {
        // the same reference in a signed column: a lazy signed word reading the target's position
        let b = handles[r.as_u64().unwrap() as usize].clone();
        let f: Box<dyn Fn() -> i64 + Sync + Send> = Box::new(move || b.get().into_u32() as i64);
        jbk::Value::SignedWord(f.into())
    } else {
        panic!("bad value {v}")
    }
}

pub fn from_value(v: &jbk::Value) -> J {
    match v {
        jbk::Value::Unsigned(u) => json!({"u": u}),
        jbk::Value::Signed(s) => json!({"s": s}),
        jbk::Value::Array(a) => json!({"a": a.to_vec()}),
        jbk::Value::Content(c) => json!({"c": [c.pack_id.into_u16(), c.content_id.into_u32()]}),
        jbk::Value::UnsignedWord(w) => json!({"u": w.get()}),
        jbk::Value::SignedWord(w) => json!({"s": w.get()}),
    }
}

pub fn dir_path(s: &Scn) -> String {
    format!("{}/dir.jbkd", s.dir)
}

pub struct Built {
    pub creator: jbk::creator::DirectoryPackCreator,
    pub handles: Vec<jbk::Bound<jbk::EntryIdx>>,
}

/// Build a DirectoryPackCreator holding the scenario's stores, entry store and indexes.
pub fn build(s: &Scn, pack_id: u16) -> Built {
    let mut creator = jbk::creator::DirectoryPackCreator::new(
        jbk::PackId::from(pack_id),
        jbk::VendorId::from([1, 0, 0, 0]),
        crate::content::free24(&s.free_data).into(),
    );
    let handles = populate(s, &mut creator);
    Built { creator, handles }
}

/// Add the scenario's value stores, entry store and indexes to `creator`.
pub fn populate(
    s: &Scn,
    creator: &mut jbk::creator::DirectoryPackCreator,
) -> Vec<jbk::Bound<jbk::EntryIdx>> {
    let stores: Vec<jbk::creator::StoreHandle> = s
        .stores
        .iter()
        .map(|k| match k.as_str() {
            "plain" => jbk::creator::ValueStore::new_plain(None),
            "indexed" => jbk::creator::ValueStore::new_indexed(),
            k => panic!("unknown store kind {k}"),
        })
        .collect();
    for st in &stores {
        creator.add_value_store(st.clone());
    }
    let common = schema::CommonProperties::new(
        s.schema
            .common
            .iter()
            .map(|p| mk_prop(p, &stores))
            .collect(),
    );
    let variants = s
        .schema
        .variants
        .iter()
        .map(|v| {
            (
                leak(&v.name),
                schema::VariantProperties::new(
                    v.props.iter().map(|p| mk_prop(p, &stores)).collect(),
                ),
            )
        })
        .collect();
    let sort = s
        .schema
        .sort
        .as_ref()
        .map(|k| k.iter().map(|n| leak(n)).collect::<Vec<_>>());
    let sch = schema::Schema::<&'static str, &'static str>::new(common, variants, sort);
    let mut store = Box::new(jbk::creator::EntryStore::new(sch, None));
    // one vow per entry, created up front so that any entry may refer to any other (C15)
    let vows: Vec<jbk::Vow<jbk::EntryIdx>> =
        s.entries.iter().map(|_| jbk::Vow::new(0.into())).collect();
    let binds: Vec<jbk::Bound<jbk::EntryIdx>> = vows.iter().map(|v| v.bind()).collect();
    let mut handles = Vec::new();
    for (e, vow) in s.entries.iter().zip(vows) {
        let values: HashMap<&'static str, jbk::Value> = e
            .values
            .iter()
            .map(|(k, v)| (leak(k), to_value(v, &binds)))
            .collect();
        let entry = jbk::creator::BasicEntry::new_from_schema_idx(
            &store.schema,
            vow,
            e.variant.as_ref().map(|v| leak(v)),
            values,
        );
        handles.push(store.add_entry(entry));
    }
    let sid = creator.add_entry_store(store);
    for ix in &s.indexes {
        let mut fd = [0u8; 4];
        for (i, b) in ix.free_data.iter().take(4).enumerate() {
            fd[i] = *b;
        }
        creator.create_index(
            &ix.name,
            fd.into(),
            ix.index_key.into(),
            sid,
            ix.count.into(),
            jbk::EntryIdx::from(ix.offset).into(),
        );
    }
    handles
}

pub fn run(s: &Scn) {
    emit(json!({"ev":"Begin","scn":s.id}));
    std::fs::create_dir_all(&s.dir).unwrap();
    let path = dir_path(s);
    let created = catch(|| -> Result<Vec<u32>, String> {
        let b = build(s, 0);
        let fin = b.creator.finalize().map_err(|e| format!("finalize: {e}"))?;
        let mut f = std::fs::OpenOptions::new()
            .read(true)
            .write(true)
            .create(true)
            .truncate(true)
            .open(&path)
            .map_err(|e| e.to_string())?;
        fin.write(&mut f).map_err(|e| format!("write: {e}"))?;
        Ok(b.handles.iter().map(|h| h.get().into_u32()).collect())
    });
    match created {
        Ok(Ok(handles)) => {
            emit(json!({"ev":"Finalize","ok":true,"file":path}));
            emit(json!({"ev":"Handles","pos":handles}));
        }
        Ok(Err(e)) => {
            emit(json!({"ev":"Finalize","ok":false,"err":e}));
            emit(json!({"ev":"End","scn":s.id}));
            return;
        }
        Err(p) => {
            emit(
                json!({"ev":"Finalize","ok":false,"panic":p,"site":crate::out::last_panic_site()}),
            );
            emit(json!({"ev":"End","scn":s.id}));
            return;
        }
    }
    match catch(|| read_back(s, &path)) {
        Ok(Ok(())) => {}
        Ok(Err(e)) => emit(json!({"ev":"ReadError","err":e})),
        Err(p) => emit(json!({"ev":"ReadPanic","panic":p,"site":crate::out::last_panic_site()})),
    }
    emit(json!({"ev":"End","scn":s.id}));
}

struct Recorder<C: CompareTrait> {
    inner: C,
    ordered: bool,
    log: RefCell<Vec<(u32, i8)>>,
}
impl<C: CompareTrait> CompareTrait for Recorder<C> {
    fn ordered(&self) -> bool {
        self.ordered
    }
    fn compare_entry(&self, idx: jbk::EntryIdx) -> jbk::Result<Ordering> {
        let r = self.inner.compare_entry(idx)?;
        let mut log = self.log.borrow_mut();
        if log.len() < 100_000 {
            log.push((
                idx.into_u32(),
                match r {
                    Ordering::Less => -1,
                    Ordering::Equal => 0,
                    Ordering::Greater => 1,
                },
            ));
        }
        Ok(r)
    }
}

pub fn entry_json(
    entry: &impl EntryTrait,
    names: &[String],
    vnames: &[String],
) -> Result<J, String> {
    let var = entry
        .get_variant_id()
        .map_err(|e| format!("variant: {e}"))?;
    let mut vals = serde_json::Map::new();
    for n in names {
        match entry.get_value(n) {
            Ok(Some(raw)) => {
                let v = raw.get().map_err(|e| format!("value {n}: {e}"))?;
                vals.insert(n.clone(), from_value(&v));
            }
            Ok(None) => {}
            Err(e) => return Err(format!("value {n}: {e}")),
        }
    }
    let vname = var.map(|v| {
        vnames
            .get(v.into_u8() as usize)
            .cloned()
            .unwrap_or_else(|| format!("#{}", v.into_u8()))
    });
    Ok(json!({"variant": vname, "variantId": var.map(|v| v.into_u8()), "values": vals}))
}

pub fn variant_names(store: &jbk::reader::EntryStore) -> Vec<String> {
    let layout = store.layout();
    match &layout.variant_part {
        None => vec![],
        Some(vp) => {
            let mut v = vec![String::new(); vp.names.len()];
            for (n, i) in vp.names.iter() {
                if (*i as usize) < v.len() {
                    v[*i as usize] = n.as_str().to_string();
                }
            }
            v
        }
    }
}

/// The same entry read through the typed property builders (`Property::as_builder`, the custom-reader API of
/// examples/custom_read.rs) instead of AnyBuilder / LazyEntry: returns the values in the format of `entry_json`.
fn typed_entry(
    s: &Scn,
    store: &jbk::reader::EntryStore,
    vs: &jbk::reader::ValueStorage,
    idx: jbk::EntryIdx,
    vnames: &[String],
) -> Result<Option<J>, String> {
    use jbk::reader::builder::{
        ArrayProperty, ContentProperty, IntProperty, PropertyBuilderTrait, SignedProperty,
    };
    let reader = match store.get_entry_reader(idx) {
        Some(r) => r,
        None => return Ok(None),
    };
    let layout = store.layout();
    let mut vals = serde_json::Map::new();
    macro_rules! read_props {
        ($props:expr, $decl:expr) => {
        for p in $decl.iter() {
            let lp = match $props.iter().find(|(n, _)| n.as_str() == p.name.as_str()).map(|(_, lp)| lp) {
                Some(lp) => lp,
                None => continue,
            };
            let e = |e: jbk::Error| format!("typed {}: {e}", p.name);
            let missing = || format!("typed {}: not a {} property", p.name, p.typ);
            let v = match p.typ.as_str() {
                "uint" | "ref" => {
                    let b: IntProperty = lp.as_builder(vs).map_err(e)?.ok_or_else(missing)?;
                    json!({"u": b.create(&reader).map_err(e)?})
                }
                "sint" | "sref" => {
                    let b: SignedProperty = lp.as_builder(vs).map_err(e)?.ok_or_else(missing)?;
                    json!({"s": b.create(&reader).map_err(e)?})
                }
                "array" => {
                    let b: ArrayProperty = lp.as_builder(vs).map_err(e)?.ok_or_else(missing)?;
                    let mut out = jbk::SmallBytes::new();
                    b.create(&reader).map_err(e)?.resolve_to_vec(&mut out).map_err(e)?;
                    json!({"a": out.to_vec()})
                }
                "content" => {
                    let b: ContentProperty = lp.as_builder(vs).map_err(e)?.ok_or_else(missing)?;
                    let c = b.create(&reader).map_err(e)?;
                    json!({"c": [c.pack_id.into_u16(), c.content_id.into_u32()]})
                }
                o => return Err(format!("typed: unknown type {o}")),
            };
            vals.insert(p.name.clone(), v);
        }
        };
    }
    read_props!(&layout.common, &s.schema.common);
    let mut var: Option<u8> = None;
    if let Some(vp) = &layout.variant_part {
        let vid = vp
            .as_builder()
            .create(&reader)
            .map_err(|e| format!("typed variant id: {e}"))?;
        let vid = vid.into_u8();
        var = Some(vid);
        let vname = vnames.get(vid as usize).cloned().unwrap_or_default();
        if let (Some(props), Some(decl)) = (
            vp.variants.get(vid as usize),
            s.schema.variants.iter().find(|v| v.name == vname),
        ) {
            read_props!(props, &decl.props);
        }
    }
    let vname = var.map(|v| {
        vnames
            .get(v as usize)
            .cloned()
            .unwrap_or_else(|| format!("#{v}"))
    });
    Ok(Some(
        json!({"variant": vname, "variantId": var, "values": vals}),
    ))
}

/// Every property of the entry at `idx` read through the typed property builders, the builder type being found by
/// trying them in turn (no schema needed): name -> value in the format of `entry_json`, or "ERR: ..." .
pub fn typed_values_any(
    store: &jbk::reader::EntryStore,
    vs: &jbk::reader::ValueStorage,
    idx: jbk::EntryIdx,
) -> Option<serde_json::Map<String, J>> {
    use jbk::reader::builder::{
        ArrayProperty, ContentProperty, IntProperty, PropertyBuilderTrait, SignedProperty,
    };
    let reader = store.get_entry_reader(idx)?;
    let layout = store.layout();
    let mut vals = serde_json::Map::new();
    macro_rules! read_all {
        ($props:expr) => {
            for (name, lp) in $props.iter() {
                let r = (|| -> Result<J, String> {
                    let e = |e: jbk::Error| format!("ERR: {e}");
                    if let Some(b) = lp.as_builder::<IntProperty, _>(vs).map_err(e)? {
                        return Ok(json!({"u": b.create(&reader).map_err(e)?}));
                    }
                    if let Some(b) = lp.as_builder::<SignedProperty, _>(vs).map_err(e)? {
                        return Ok(json!({"s": b.create(&reader).map_err(e)?}));
                    }
                    if let Some(b) = lp.as_builder::<ArrayProperty, _>(vs).map_err(e)? {
                        let mut out = jbk::SmallBytes::new();
                        b.create(&reader).map_err(e)?.resolve_to_vec(&mut out).map_err(e)?;
                        return Ok(json!({"a": out.to_vec()}));
                    }
                    if let Some(b) = lp.as_builder::<ContentProperty, _>(vs).map_err(e)? {
                        let c = b.create(&reader).map_err(e)?;
                        return Ok(json!({"c": [c.pack_id.into_u16(), c.content_id.into_u32()]}));
                    }
                    Err("ERR: no typed builder accepts this property".to_string())
                })();
                vals.insert(name.as_str().to_string(), match r {
                    Ok(v) => v,
                    Err(e) => json!(e),
                });
            }
        };
    }
    read_all!(&layout.common);
    if let Some(vp) = &layout.variant_part {
        match vp.as_builder().create(&reader) {
            Ok(vid) => {
                if let Some(props) = vp.variants.get(vid.into_u8() as usize) {
                    read_all!(props);
                }
            }
            Err(e) => {
                vals.insert("<variant>".into(), json!(format!("ERR: {e}")));
            }
        }
    }
    Some(vals)
}

fn read_back(s: &Scn, path: &str) -> Result<(), String> {
    let reader: jbk::Reader = jbk::FileSource::open(path)
        .map_err(|e| e.to_string())?
        .into();
    let pack = Arc::new(jbk::reader::DirectoryPack::new(reader).map_err(|e| format!("open: {e}"))?);
    emit(json!({"ev":"Open","ok":true}));
    let es = pack.create_entry_storage();
    let vs = pack.create_value_storage();
    let mut names: Vec<String> = s.schema.common.iter().map(|p| p.name.clone()).collect();
    for v in &s.schema.variants {
        for p in &v.props {
            if !names.contains(&p.name) {
                names.push(p.name.clone());
            }
        }
    }
    for ixd in &s.indexes {
        let index = match pack.get_index_from_name(&ixd.name) {
            Ok(Some(i)) => i,
            Ok(None) => {
                emit(json!({"ev":"Index","name":ixd.name,"res":"none"}));
                continue;
            }
            Err(e) => {
                emit(json!({"ev":"Index","name":ixd.name,"res":"err","err":e.to_string()}));
                continue;
            }
        };
        emit(
            json!({"ev":"Index","name":ixd.name,"res":"ok","count":index.count().into_u32(),"offset":index.offset().into_u32()}),
        );
        let store = index.get_store(&es).map_err(|e| format!("store: {e}"))?;
        let vnames = variant_names(&store);
        let store2 = index.get_store(&es).map_err(|e| format!("store: {e}"))?;
        let builder = jbk::reader::builder::AnyBuilder::new(store, vs.as_ref())
            .map_err(|e| format!("builder: {e}"))?;
        let n = index.count().into_u32();
        let stride = std::cmp::max(s.read_stride, 1);
        let mut i = 0;
        while i < n {
            match index.get_entry(&builder, jbk::EntryIdx::from(i)) {
                Ok(Some(e)) => match entry_json(&e, &names, &vnames) {
                    Ok(j) => {
                        // the typed builders must give what the generic one gives
                        let t = catch(|| {
                            typed_entry(
                                s,
                                &store2,
                                vs.as_ref(),
                                index.offset() + jbk::EntryIdx::from(i),
                                &vnames,
                            )
                        });
                        let (tres, tdetail) = match t {
                            Ok(Ok(Some(tj))) if tj == j => ("same", J::Null),
                            Ok(Ok(Some(tj))) => ("differs", tj),
                            Ok(Ok(None)) => ("none", J::Null),
                            Ok(Err(e)) => ("err", json!(e)),
                            Err(p) => ("panic", json!(p)),
                        };
                        emit(
                            json!({"ev":"Read","index":ixd.name,"i":i,"res":"ok","entry":j,"typed":tres,"typedEntry":tdetail}),
                        )
                    }
                    Err(err) => {
                        emit(json!({"ev":"Read","index":ixd.name,"i":i,"res":"err","err":err}))
                    }
                },
                Ok(None) => emit(json!({"ev":"Read","index":ixd.name,"i":i,"res":"none"})),
                Err(err) => emit(
                    json!({"ev":"Read","index":ixd.name,"i":i,"res":"err","err":err.to_string()}),
                ),
            }
            i += if i + stride < n || i + 1 == n {
                stride
            } else {
                n - 1 - i
            };
        }
        for past in [n, n + 1, u32::MAX - 1] {
            match index.get_entry(&builder, jbk::EntryIdx::from(past)) {
                Ok(Some(_)) => {
                    emit(json!({"ev":"Read","index":ixd.name,"i":past,"res":"ok","past":true}))
                }
                Ok(None) => {
                    emit(json!({"ev":"Read","index":ixd.name,"i":past,"res":"none","past":true}))
                }
                Err(err) => emit(
                    json!({"ev":"Read","index":ixd.name,"i":past,"res":"err","past":true,"err":err.to_string()}),
                ),
            }
        }
        for (k, f) in s.finds.iter().enumerate() {
            if f.index != ixd.name {
                continue;
            }
            for ordered in [false, true] {
                let values: Vec<jbk::Value> = f.values.iter().map(|v| to_value(v, &[])).collect();
                let cmp = Recorder {
                    inner: builder.new_multiple_property_compare(f.props.clone(), values),
                    ordered,
                    log: RefCell::new(Vec::new()),
                };
                let r = catch(|| index.find(&cmp));
                let probes: Vec<(u32, i8)> = cmp.log.borrow().clone();
                let res = match r {
                    Ok(Ok(Some(i))) => json!({"found": i.into_u32()}),
                    Ok(Ok(None)) => json!("none"),
                    Ok(Err(e)) => json!({"err": e.to_string()}),
                    Err(p) => json!({"panic": p}),
                };
                emit(
                    json!({"ev":"Find","index":ixd.name,"k":k,"ordered":ordered,"res":res,
                            "probes": probes.iter().take(200).collect::<Vec<_>>(), "nprobes": probes.len()}),
                );
            }
        }
    }
    use jbk::Pack;
    emit(json!({"ev":"FreeData","data":pack.get_free_data().to_vec()}));
    match pack.check() {
        Ok(b) => emit(json!({"ev":"Check","res":b})),
        Err(e) => emit(json!({"ev":"Check","res":"err","err":e.to_string()})),
    }
    Ok(())
}
