//! Deterministic content generator shared (by definition) with tools/jbkgen.py.
//!
//! content(cid, size, cls) = (header ++ body)[..size]
//!   header = 'C' ++ u32le(cid) ++ u32le(size) ++ cls byte        (10 bytes; absent for cls "zero")
//!   body   = low : "jubako-%08x\n" repeated
//!            rand: pool bytes from offset (cid*7919+13) % len(pool), wrapping
//!            pos : u32be(0), u32be(1), ... (position coded)
//!            zero: zeros
use std::sync::OnceLock;

static POOL: OnceLock<Vec<u8>> = OnceLock::new();

pub fn pool() -> &'static [u8] {
    POOL.get_or_init(|| {
        let p = std::env::var("VERIF_POOL").unwrap_or_else(|_| "/verif/work/pool.bin".into());
        std::fs::read(&p).unwrap_or_else(|e| panic!("cannot read pool {p}: {e}"))
    })
}

pub fn content(cid: u32, size: u64, cls: &str) -> Vec<u8> {
    let size = size as usize;
    let mut v = Vec::with_capacity(size + 32);
    if cls == "zero" {
        v.resize(size, 0);
        return v;
    }
    v.push(b'C');
    v.extend_from_slice(&cid.to_le_bytes());
    v.extend_from_slice(&(size as u32).to_le_bytes());
    v.push(cls.as_bytes()[0]);
    match cls {
        "low" => {
            let block = format!("jubako-{:08x}\n", cid);
            while v.len() < size {
                v.extend_from_slice(block.as_bytes());
            }
        }
        "rand" => {
            let p = pool();
            let mut o = ((cid as u64 * 7919 + 13) % p.len() as u64) as usize;
            while v.len() < size {
                let n = std::cmp::min(p.len() - o, size - v.len());
                v.extend_from_slice(&p[o..o + n]);
                o = (o + n) % p.len();
            }
        }
        "pos" => {
            let mut i: u32 = 0;
            while v.len() < size {
                v.extend_from_slice(&i.to_be_bytes());
                i += 1;
            }
        }
        _ => panic!("unknown content class {cls}"),
    }
    v.truncate(size);
    v
}
