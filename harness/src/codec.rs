//! Third-party codecs only (no jubako code): used by the independent decoder tools/jbkdec.py,
//! which has no zstd / lz4 / fast blake3 of its own.
use std::io::{Read, Write};

pub fn main(args: &[String]) {
    if args.len() < 2 {
        eprintln!("codec <zstd|lz4|blake3> <in> [out]");
        std::process::exit(2);
    }
    let data = std::fs::read(&args[1]).expect("read input");
    match args[0].as_str() {
        "blake3" => {
            println!("{}", blake3::hash(&data).to_hex());
        }
        "zstd" | "lz4" => {
            let mut outv = Vec::new();
            let r = if args[0] == "zstd" {
                zstd::Decoder::new(&data[..]).and_then(|mut d| d.read_to_end(&mut outv))
            } else {
                lz4::Decoder::new(&data[..]).and_then(|mut d| d.read_to_end(&mut outv))
            };
            if let Err(e) = r {
                eprintln!("decode error: {e}");
                std::process::exit(3);
            }
            let mut o = std::fs::File::create(&args[2]).expect("create output");
            o.write_all(&outv).unwrap();
        }
        _ => {
            eprintln!("unknown codec");
            std::process::exit(2);
        }
    }
}
