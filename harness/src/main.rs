//! jbkdrive - conformance harness binding the TLA+ specification in /verif/spec to the jubako
//! implementation in /repo (path dependency, rebuilt from the working tree on every check).
mod codec;
#[cfg(jubako_verif)]
mod conc;
mod container;
mod content;
mod entries;
mod gen;
mod out;
mod views;

use serde_json::Value;
use std::io::BufRead;

fn usage() -> ! {
    eprintln!("usage: jbkdrive run <scenarios.ndjson> [trace.ndjson] | codec <zstd|lz4|blake3> <in> [out]");
    std::process::exit(2)
}

fn main() {
    let args: Vec<String> = std::env::args().collect();
    if args.len() < 2 {
        usage();
    }
    match args[1].as_str() {
        "run" => {
            if args.len() < 3 {
                usage();
            }
            if std::env::var("VERIF_IGNORE_XFSZ").is_ok() {
                // error-return variant of the write-limit injection: write() fails with EFBIG
                unsafe {
                    libc::signal(libc::SIGXFSZ, libc::SIG_IGN);
                }
            }
            out::init(args.get(3).map(|s| s.as_str()));
            out::install_panic_hook();
            let f = std::fs::File::open(&args[2]).expect("cannot open scenario file");
            for line in std::io::BufReader::new(f).lines() {
                let line = line.unwrap();
                if line.trim().is_empty() {
                    continue;
                }
                let v: Value = serde_json::from_str(&line).expect("bad scenario json");
                // per-scenario watchdog: a scenario that does not end is reported and ends the process
                // (exit code 98) instead of consuming the supervisor's whole batch budget
                let done = std::sync::Arc::new(std::sync::atomic::AtomicBool::new(false));
                if let Some(limit) = std::env::var("VERIF_SCN_TIMEOUT")
                    .ok()
                    .and_then(|s| s.parse::<u64>().ok())
                {
                    let done = std::sync::Arc::clone(&done);
                    std::thread::spawn(move || {
                        let t0 = std::time::Instant::now();
                        while t0.elapsed().as_secs() < limit {
                            if done.load(std::sync::atomic::Ordering::Relaxed) {
                                return;
                            }
                            std::thread::sleep(std::time::Duration::from_millis(50));
                        }
                        if !done.load(std::sync::atomic::Ordering::Relaxed) {
                            out::emit(serde_json::json!({"ev":"Watchdog","limit_s":limit}));
                            std::process::exit(98);
                        }
                    });
                }
                run_one(v);
                done.store(true, std::sync::atomic::Ordering::Relaxed);
            }
        }
        "codec" => codec::main(&args[2..]),
        _ => usage(),
    }
}

fn run_one(v: Value) {
    let kind = v["kind"].as_str().unwrap_or("content").to_string();
    match kind.as_str() {
        "content" => {
            let s: content::Scn = serde_json::from_value(v).expect("bad content scenario");
            content::run(&s);
        }
        "container" => {
            let s: container::Scn = serde_json::from_value(v).expect("bad container scenario");
            container::run(&s);
        }
        "dump" => {
            let s: container::DumpScn = serde_json::from_value(v).expect("bad dump scenario");
            container::dump(&s);
        }
        "tool" => {
            let s: container::ToolScn = serde_json::from_value(v).expect("bad tool scenario");
            container::tool(&s);
        }
        #[cfg(jubako_verif)]
        "conc" => {
            let s: conc::Scn = serde_json::from_value(v).expect("bad conc scenario");
            conc::run(&s);
        }
        "views" => {
            let s: views::Scn = serde_json::from_value(v).expect("bad views scenario");
            views::run(&s);
        }
        "entries" => {
            let s: entries::Scn = serde_json::from_value(v).expect("bad entries scenario");
            entries::run(&s);
        }
        k => panic!("unknown scenario kind {k}"),
    }
}
