//! Content-pack scenarios (C01, C08, C16, also feeds C14): create a pack through the public API,
//! log every call with its arguments and result, then read everything back.
use crate::gen;
use crate::out::{catch, emit};
use jbk::creator::{
    CachedContentAdder, CompHint, Compression, ContentAdder, ContentPackCreator, InputFile,
    InputReader, Progress,
};
use jubako as jbk;
use serde::Deserialize;
use serde_json::json;
use std::io::{Read, Write};
use std::rc::Rc;
use std::sync::atomic::{AtomicU64, Ordering};
use std::sync::Arc;

#[derive(Deserialize, Clone)]
pub struct Op {
    pub cid: u32,
    pub size: u64,
    #[serde(default = "d_low")]
    pub cls: String,
    #[serde(default = "d_detect")]
    pub hint: String,
    #[serde(default = "d_mem")]
    pub src: String,
    #[serde(default)]
    pub origin: u64,
}
fn d_low() -> String {
    "low".into()
}
fn d_detect() -> String {
    "detect".into()
}
fn d_mem() -> String {
    "mem".into()
}
fn d_pack() -> String {
    "pack".into()
}
fn d_one() -> String {
    "one".into()
}
fn d_true() -> bool {
    true
}

#[derive(Deserialize, Clone)]
pub struct Scn {
    pub id: String,
    pub dir: String,
    #[serde(default = "d_none")]
    pub comp: String,
    #[serde(default)]
    pub level: i32,
    #[serde(default = "d_pack")]
    pub creator: String,
    #[serde(default = "d_one")]
    pub concat: String,
    #[serde(default)]
    pub cached: bool,
    pub ops: Vec<Op>,
    #[serde(default)]
    pub delay_seed: u64,
    #[serde(default)]
    pub delay_max_us: u64,
    #[serde(default = "d_true")]
    pub read: bool,
    #[serde(default)]
    pub keep_inputs: bool,
    #[serde(default)]
    pub quiet_adds: bool,
    /// application free data of the pack (24 bytes, zero padded)
    #[serde(default)]
    pub free_data: Vec<u8>,
    /// hooked build only: log the pipeline hooks (dispatch, take, done, counter, write, address) during creation
    #[serde(default)]
    pub trace_hooks: bool,
}

#[cfg(jubako_verif)]
fn pipeline_tracer(name: &'static str, id: u64, a: u64, b: u64) {
    if name.starts_with('P') {
        let th = std::thread::current().name().unwrap_or("main").to_string();
        emit(json!({"ev":"Hook","name":name,"id":id,"a":a,"b":b,"thread":th}));
    }
}

pub fn free24(v: &[u8]) -> [u8; 24] {
    let mut a = [0u8; 24];
    for (i, b) in v.iter().take(24).enumerate() {
        a[i] = *b;
    }
    a
}
fn d_none() -> String {
    "none".into()
}

pub fn compression(comp: &str, level: i32) -> Compression {
    match comp {
        "none" => Compression::None,
        "lz4" => Compression::Lz4(deranged::RangedU32::new(level as u32).expect("lz4 level 0..15")),
        "lzma" => {
            Compression::Lzma(deranged::RangedU32::new(level as u32).expect("lzma level 0..9"))
        }
        "zstd" => Compression::Zstd(deranged::RangedI32::new(level).expect("zstd level -22..22")),
        _ => panic!("unknown compression {comp}"),
    }
}

pub fn hint(h: &str) -> CompHint {
    match h {
        "yes" => CompHint::Yes,
        "no" => CompHint::No,
        "detect" => CompHint::Detect,
        _ => panic!("unknown hint {h}"),
    }
}

/// Progress implementation: logs the code's own step boundaries (one mutex, seq under it) and
/// then sleeps a seeded pseudo-random delay - the schedule perturbation C08 asks for.
pub struct Prog {
    seed: AtomicU64,
    max_us: u64,
}
impl Prog {
    pub fn new(seed: u64, max_us: u64) -> Self {
        Self {
            seed: AtomicU64::new(seed | 1),
            max_us,
        }
    }
    fn delay(&self) {
        if self.max_us == 0 {
            return;
        }
        // xorshift64*, shared state: which thread draws which number is itself schedule dependent
        let mut x = self.seed.load(Ordering::Relaxed);
        x ^= x >> 12;
        x ^= x << 25;
        x ^= x >> 27;
        self.seed.store(x, Ordering::Relaxed);
        let r = x.wrapping_mul(0x2545F4914F6CDD1D) >> 33;
        let us = r % (self.max_us + 1);
        if r & 3 == 0 {
            std::thread::yield_now();
        } else {
            std::thread::sleep(std::time::Duration::from_micros(us));
        }
    }
}
fn tname() -> String {
    std::thread::current().name().unwrap_or("main").to_string()
}
impl Progress for Prog {
    fn new_cluster(&self, id: u32, compressed: bool) {
        emit(json!({"ev":"NewCluster","id":id,"comp":compressed,"thread":tname()}));
    }
    fn handle_cluster(&self, id: u32, compressed: bool) {
        emit(json!({"ev":"Handle","id":id,"comp":compressed,"thread":tname()}));
        self.delay();
    }
    fn handle_cluster_written(&self, id: u32) {
        emit(json!({"ev":"Written","id":id,"thread":tname()}));
        self.delay();
    }
}

pub fn make_input(dir: &str, i: usize, op: &Op, data: Vec<u8>) -> Box<dyn InputReader> {
    match op.src.as_str() {
        "mem" => Box::new(std::io::Cursor::new(data)),
        "file" => {
            let p = format!("{dir}/in_{i}.bin");
            std::fs::write(&p, &data).unwrap();
            Box::new(InputFile::open(&p).unwrap())
        }
        "range" => {
            let p = format!("{dir}/in_{i}.bin");
            let mut f = std::fs::File::create(&p).unwrap();
            let junk: Vec<u8> = (0..op.origin).map(|k| (k as u8) ^ 0xA5).collect();
            f.write_all(&junk).unwrap();
            f.write_all(&data).unwrap();
            f.write_all(b"TRAILING-JUNK-AFTER-THE-RANGE").unwrap();
            drop(f);
            let f = std::fs::File::open(&p).unwrap();
            Box::new(InputFile::new_range(f, op.origin, Some(data.len() as u64)).unwrap())
        }
        s => panic!("unknown source kind {s}"),
    }
}

struct SimpleStore {
    addrs: Vec<(u32, jbk::ContentAddress)>,
}
impl jbk::creator::EntryStoreTrait for SimpleStore {
    fn finalize(self: Box<Self>, directory_pack: &mut jbk::creator::DirectoryPackCreator) {
        use jbk::creator::schema;
        let schema = schema::Schema::<&'static str, &'static str>::new(
            schema::CommonProperties::new(vec![
                schema::Property::new_uint("id"),
                schema::Property::new_content_address("content"),
            ]),
            vec![],
            None,
        );
        let mut store = Box::new(jbk::creator::EntryStore::new(schema, None));
        for (cid, a) in &self.addrs {
            let e = jbk::creator::BasicEntry::new_from_schema(
                &store.schema,
                None,
                std::collections::HashMap::from([
                    ("id", jbk::Value::Unsigned(*cid as u64)),
                    ("content", jbk::Value::Content(*a)),
                ]),
            );
            store.add_entry(e);
        }
        let n = self.addrs.len() as u32;
        let idx = directory_pack.add_entry_store(store);
        directory_pack.create_index(
            "main",
            Default::default(),
            0.into(),
            idx,
            n.into(),
            jbk::EntryIdx::from(0).into(),
        );
    }
}

enum Adder {
    Pack(ContentPackCreator<jbk::creator::NamedFile>),
    PackCached(CachedContentAdder<ContentPackCreator<jbk::creator::NamedFile>>),
    Basic(jbk::creator::BasicCreator),
    BasicCached(CachedContentAdder<jbk::creator::BasicCreator>),
}
impl Adder {
    fn add(
        &mut self,
        r: Box<dyn InputReader>,
        h: CompHint,
    ) -> std::io::Result<jbk::ContentAddress> {
        match self {
            Adder::Pack(c) => c.add_content(r, h),
            Adder::PackCached(c) => ContentAdder::add_content(c, r, h),
            Adder::Basic(c) => c.add_content(r, h),
            Adder::BasicCached(c) => ContentAdder::add_content(c, r, h),
        }
    }
}

pub fn out_path(s: &Scn) -> String {
    if s.creator == "pack" {
        format!("{}/pack.jbkc", s.dir)
    } else {
        format!("{}/out.jbk", s.dir)
    }
}

pub fn concat_mode(c: &str) -> jbk::creator::ConcatMode {
    match c {
        "one" => jbk::creator::ConcatMode::OneFile,
        "two" => jbk::creator::ConcatMode::TwoFiles,
        "none" => jbk::creator::ConcatMode::NoConcat,
        _ => panic!("unknown concat mode {c}"),
    }
}

pub fn run(s: &Scn) {
    emit(json!({"ev":"Begin","scn":s.id}));
    std::fs::create_dir_all(&s.dir).unwrap();
    let workers = std::cmp::max(
        std::thread::available_parallelism()
            .map(|n| n.get())
            .unwrap_or(8),
        2,
    ) - 1;
    emit(
        json!({"ev":"New","comp":s.comp,"level":s.level,"creator":s.creator,"cached":s.cached,
                "concat":s.concat,"workers":workers,"maxQueue":2*workers}),
    );
    #[cfg(jubako_verif)]
    if s.trace_hooks {
        jbk::verif::set_tracer(Some(pipeline_tracer));
    }
    let created = catch(|| create(s));
    #[cfg(jubako_verif)]
    jbk::verif::set_tracer(None);
    let addrs = match created {
        Ok(Ok(a)) => {
            emit(json!({"ev":"Finalize","ok":true,"file":out_path(s)}));
            a
        }
        Ok(Err(e)) => {
            emit(json!({"ev":"Finalize","ok":false,"err":e}));
            emit(json!({"ev":"End","scn":s.id}));
            return;
        }
        Err(p) => {
            emit(
                json!({"ev":"Finalize","ok":false,"panic":p,"site":crate::out::last_panic_site()}),
            );
            emit(json!({"ev":"End","scn":s.id}));
            return;
        }
    };
    if !s.keep_inputs {
        for i in 0..s.ops.len() {
            let _ = std::fs::remove_file(format!("{}/in_{i}.bin", s.dir));
        }
    }
    if s.read {
        let r = catch(|| read_back(s, &addrs));
        match r {
            Ok(Ok(())) => {}
            Ok(Err(e)) => emit(json!({"ev":"ReadError","err":e})),
            Err(p) => {
                emit(json!({"ev":"ReadPanic","panic":p,"site":crate::out::last_panic_site()}))
            }
        }
    }
    emit(json!({"ev":"End","scn":s.id}));
}

fn create(s: &Scn) -> Result<Vec<(u16, u32)>, String> {
    let prog: Arc<dyn Progress> = Arc::new(Prog::new(s.delay_seed, s.delay_max_us));
    let comp = compression(&s.comp, s.level);
    let path = out_path(s);
    let mut adder = if s.creator == "pack" {
        let c = ContentPackCreator::new_with_progress(
            &path,
            jbk::PackId::from(1),
            jbk::VendorId::from([1, 0, 0, 0]),
            free24(&s.free_data).into(),
            comp,
            prog,
        )
        .map_err(|e| format!("new: {e}"))?;
        if s.cached {
            Adder::PackCached(CachedContentAdder::new(c, Rc::new(())))
        } else {
            Adder::Pack(c)
        }
    } else {
        let c = jbk::creator::BasicCreator::new(
            &path,
            concat_mode(&s.concat),
            jbk::VendorId::from([1, 0, 0, 0]),
            comp,
            prog,
        )
        .map_err(|e| format!("new: {e}"))?;
        if s.cached {
            Adder::BasicCached(CachedContentAdder::new(c, Rc::new(())))
        } else {
            Adder::Basic(c)
        }
    };
    let mut addrs = Vec::new();
    for (i, op) in s.ops.iter().enumerate() {
        let data = gen::content(op.cid, op.size, &op.cls);
        let input = make_input(&s.dir, i, op, data);
        match adder.add(input, hint(&op.hint)) {
            Ok(a) => {
                let (p, c) = (a.pack_id.into_u16(), a.content_id.into_u32());
                if s.quiet_adds {
                    addrs.push((p, c));
                    continue;
                }
                emit(
                    json!({"ev":"Add","i":i,"cid":op.cid,"size":op.size,"cls":op.cls,"hint":op.hint,
                            "src":op.src,"cached":s.cached,"pack":p,"idx":c}),
                );
                addrs.push((p, c));
            }
            Err(e) => {
                emit(
                    json!({"ev":"Add","i":i,"cid":op.cid,"size":op.size,"cls":op.cls,"hint":op.hint,
                            "src":op.src,"cached":s.cached,"err":e.to_string()}),
                );
                return Err(format!("add {i}: {e}"));
            }
        }
    }
    match adder {
        Adder::Pack(c) => {
            c.finalize().map_err(|e| format!("finalize: {e}"))?;
        }
        Adder::PackCached(c) => {
            c.into_inner()
                .finalize()
                .map_err(|e| format!("finalize: {e}"))?;
        }
        Adder::Basic(c) => finalize_basic(c, s, &addrs)?,
        Adder::BasicCached(c) => finalize_basic(c.into_inner(), s, &addrs)?,
    }
    Ok(addrs)
}

fn finalize_basic(
    c: jbk::creator::BasicCreator,
    s: &Scn,
    addrs: &[(u16, u32)],
) -> Result<(), String> {
    let store = SimpleStore {
        addrs: s
            .ops
            .iter()
            .zip(addrs)
            .map(|(op, (p, i))| {
                (
                    op.cid,
                    jbk::ContentAddress::new(jbk::PackId::from(*p), jbk::ContentIdx::from(*i)),
                )
            })
            .collect(),
    };
    c.finalize(Box::new(store), vec![])
        .map_err(|e| format!("finalize: {e}"))
}

pub fn read_region(region: &jbk::reader::ByteRegion) -> std::io::Result<Vec<u8>> {
    let mut v = Vec::with_capacity(region.size().into_u64() as usize);
    region.stream().read_to_end(&mut v)?;
    Ok(v)
}

fn classify(s: &Scn, addrs: &[(u16, u32)], idx: u32, got: &[u8]) -> serde_json::Value {
    // the content(s) whose insertion returned this address
    let owners: Vec<usize> = addrs
        .iter()
        .enumerate()
        .filter(|(_, a)| a.1 == idx)
        .map(|(i, _)| i)
        .collect();
    let mut res = "foreign";
    let mut cid = json!(null);
    for i in &owners {
        let op = &s.ops[*i];
        if gen::content(op.cid, op.size, &op.cls) == got {
            res = "match";
            cid = json!(op.cid);
            break;
        }
    }
    json!({"ev":"Get","idx":idx,"res":res,"cid":cid,"size":got.len(),"owners":owners})
}

fn read_back(s: &Scn, addrs: &[(u16, u32)]) -> Result<(), String> {
    let path = out_path(s);
    let maxidx = addrs.iter().map(|a| a.1).max();
    if s.creator == "pack" {
        use jbk::Pack;
        let reader: jbk::Reader = jbk::FileSource::open(&path)
            .map_err(|e| e.to_string())?
            .into();
        let pack = jbk::reader::ContentPack::new(reader).map_err(|e| format!("open: {e}"))?;
        emit(json!({"ev":"Open","ok":true}));
        let n = pack.get_content_count().into_u32();
        emit(json!({"ev":"Count","n":n}));
        emit(json!({"ev":"FreeData","data":pack.get_free_data().to_vec()}));
        let hi = std::cmp::max(n, maxidx.map(|m| m + 1).unwrap_or(0));
        for idx in 0..hi {
            match pack.get_content(jbk::ContentIdx::from(idx)) {
                Ok(Some(region)) => match read_region(&region) {
                    Ok(got) => emit(classify(s, addrs, idx, &got)),
                    Err(e) => emit(json!({"ev":"Get","idx":idx,"res":"err","err":e.to_string()})),
                },
                Ok(None) => emit(json!({"ev":"Get","idx":idx,"res":"none"})),
                Err(e) => emit(json!({"ev":"Get","idx":idx,"res":"err","err":e.to_string()})),
            }
        }
        for idx in [hi, hi + 1, hi + 4095, hi + 4096, u32::MAX - 1] {
            match pack.get_content(jbk::ContentIdx::from(idx)) {
                Ok(Some(_)) => emit(json!({"ev":"Get","idx":idx,"res":"foreign","past":true})),
                Ok(None) => emit(json!({"ev":"Get","idx":idx,"res":"none","past":true})),
                Err(e) => {
                    emit(json!({"ev":"Get","idx":idx,"res":"err","past":true,"err":e.to_string()}))
                }
            }
        }
        match pack.check() {
            Ok(b) => emit(json!({"ev":"Check","res":b})),
            Err(e) => emit(json!({"ev":"Check","res":"err","err":e.to_string()})),
        }
    } else {
        let c = jbk::reader::Container::new(&path).map_err(|e| format!("open: {e}"))?;
        emit(json!({"ev":"Open","ok":true}));
        let pack = match c.get_pack(jbk::PackId::from(1)) {
            Ok(Some(jbk::reader::MayMissPack::FOUND(p))) => p,
            Ok(Some(jbk::reader::MayMissPack::MISSING(pi))) => {
                return Err(format!("pack 1 missing at {}", pi.pack_location))
            }
            Ok(None) => return Err("pack 1 unknown".into()),
            Err(e) => return Err(format!("get_pack: {e}")),
        };
        let n = pack.get_content_count().into_u32();
        emit(json!({"ev":"Count","n":n}));
        let hi = std::cmp::max(n, maxidx.map(|m| m + 1).unwrap_or(0));
        let get = |idx: u32, past: bool| {
            let a = jbk::ContentAddress::new(jbk::PackId::from(1), jbk::ContentIdx::from(idx));
            match c.get_bytes(a) {
                Ok(Some(jbk::reader::MayMissPack::FOUND(Some(region)))) => {
                    if past {
                        emit(json!({"ev":"Get","idx":idx,"res":"foreign","past":true}))
                    } else {
                        match read_region(&region) {
                            Ok(got) => emit(classify(s, addrs, idx, &got)),
                            Err(e) => {
                                emit(json!({"ev":"Get","idx":idx,"res":"err","err":e.to_string()}))
                            }
                        }
                    }
                }
                Ok(Some(jbk::reader::MayMissPack::FOUND(None))) => {
                    emit(json!({"ev":"Get","idx":idx,"res":"none","past":past}))
                }
                Ok(Some(jbk::reader::MayMissPack::MISSING(_))) => {
                    emit(json!({"ev":"Get","idx":idx,"res":"missing","past":past}))
                }
                Ok(None) => emit(json!({"ev":"Get","idx":idx,"res":"nopack","past":past})),
                Err(e) => {
                    emit(json!({"ev":"Get","idx":idx,"res":"err","past":past,"err":e.to_string()}))
                }
            }
        };
        for idx in 0..hi {
            get(idx, false);
        }
        for idx in [hi, hi + 1, hi + 4096, u32::MAX - 1] {
            get(idx, true);
        }
        match c.check() {
            Ok(b) => emit(json!({"ev":"Check","res":b})),
            Err(e) => emit(json!({"ev":"Check","res":"err","err":e.to_string()})),
        }
    }
    Ok(())
}
