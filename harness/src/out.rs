//! NDJSON event sink: one mutex, sequence number taken under it, flushed per line so a crash
//! of the code under test loses nothing that was already observed.
use serde_json::{json, Value};
use std::io::Write;
use std::sync::Mutex;

struct Sink {
    w: Box<dyn Write + Send>,
    seq: u64,
}

static SINK: Mutex<Option<Sink>> = Mutex::new(None);

struct Null;
impl Write for Null {
    fn write(&mut self, b: &[u8]) -> std::io::Result<usize> {
        Ok(b.len())
    }
    fn flush(&mut self) -> std::io::Result<()> {
        Ok(())
    }
}

pub fn init(path: Option<&str>) {
    if std::env::var("VERIF_NO_TRACE").is_ok() {
        // no system call at all for the trace (fault injection counts write calls)
        *SINK.lock().unwrap() = Some(Sink {
            w: Box::new(Null),
            seq: 0,
        });
        return;
    }
    let w: Box<dyn Write + Send> = match path {
        Some(p) => Box::new(std::io::BufWriter::new(
            std::fs::File::create(p).expect("cannot create trace file"),
        )),
        None => Box::new(std::io::stdout()),
    };
    *SINK.lock().unwrap() = Some(Sink { w, seq: 0 });
}

pub fn emit(mut v: Value) {
    let mut g = SINK.lock().unwrap_or_else(|e| e.into_inner());
    let s = g.as_mut().expect("sink not initialised");
    s.seq += 1;
    v["seq"] = json!(s.seq);
    let _ = writeln!(s.w, "{}", v);
    let _ = s.w.flush();
}

/// Run `f`, turning a panic into an `Err(message)` (panics of the code under test are data).
pub fn catch<T>(f: impl FnOnce() -> T) -> Result<T, String> {
    match std::panic::catch_unwind(std::panic::AssertUnwindSafe(f)) {
        Ok(v) => Ok(v),
        Err(e) => Err(if let Some(s) = e.downcast_ref::<&str>() {
            s.to_string()
        } else if let Some(s) = e.downcast_ref::<String>() {
            s.clone()
        } else {
            "panic".to_string()
        }),
    }
}

thread_local! {
    pub static LAST_PANIC_LOC: std::cell::RefCell<String> = const { std::cell::RefCell::new(String::new()) };
}
static LAST_PANIC_ANY: Mutex<String> = Mutex::new(String::new());

pub fn install_panic_hook() {
    std::panic::set_hook(Box::new(|info| {
        let loc = info
            .location()
            .map(|l| format!("{}:{}", l.file(), l.line()))
            .unwrap_or_default();
        let msg = if let Some(s) = info.payload().downcast_ref::<&str>() {
            s.to_string()
        } else if let Some(s) = info.payload().downcast_ref::<String>() {
            s.clone()
        } else {
            String::new()
        };
        let th = std::thread::current().name().unwrap_or("?").to_string();
        *LAST_PANIC_ANY.lock().unwrap_or_else(|e| e.into_inner()) = loc.clone();
        LAST_PANIC_LOC.with(|l| *l.borrow_mut() = loc.clone());
        // best effort: report the site even if the process aborts right after
        emit(
            json!({"ev":"PanicSite","site":loc,"msg":msg.chars().take(200).collect::<String>(),"thread":th}),
        );
    }));
}

pub fn last_panic_site() -> String {
    let l = LAST_PANIC_LOC.with(|l| l.borrow().clone());
    if l.is_empty() {
        LAST_PANIC_ANY
            .lock()
            .unwrap_or_else(|e| e.into_inner())
            .clone()
    } else {
        l
    }
}
