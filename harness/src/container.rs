//! Whole-container scenarios through BasicCreator (C04-C06, C09-C12, C14) and the logical dump of
//! a container through reader::Container.
use crate::content::{self, Op};
use crate::entries;
use crate::gen;
use crate::out::{catch, emit};
use jbk::creator::{ContentPackCreator, PackRecipient};
use jbk::reader::{MayMissPack, Range};
use jubako as jbk;
use serde::Deserialize;
use serde_json::{json, Value as J};
use std::sync::Arc;

#[derive(Deserialize, Clone)]
pub struct Extra {
    pub pack_id: u16,
    pub file: String,
    #[serde(default = "d_none")]
    pub comp: String,
    #[serde(default)]
    pub level: i32,
    pub ops: Vec<Op>,
}
fn d_none() -> String {
    "none".into()
}
fn d_one() -> String {
    "one".into()
}

#[derive(Deserialize, Clone)]
pub struct Scn {
    pub id: String,
    pub dir: String,
    pub out: String,
    #[serde(default = "d_one")]
    pub concat: String,
    #[serde(default = "d_none")]
    pub comp: String,
    #[serde(default)]
    pub level: i32,
    pub ops: Vec<Op>,
    #[serde(default)]
    pub extras: Vec<Extra>,
    pub dirpack: entries::Scn,
    #[serde(default)]
    pub delay_seed: u64,
    #[serde(default)]
    pub delay_max_us: u64,
}

struct Store {
    scn: entries::Scn,
}
impl jbk::creator::EntryStoreTrait for Store {
    fn finalize(self: Box<Self>, directory_pack: &mut jbk::creator::DirectoryPackCreator) {
        entries::populate(&self.scn, directory_pack);
    }
}

/// replace {"cx":[packno,k]} by the address the insertion returned
fn resolve(v: &mut J, addrs: &[Vec<(u16, u32)>]) {
    if let Some(cx) = v.get("cx").cloned() {
        let p = cx[0].as_u64().unwrap() as usize;
        let k = cx[1].as_u64().unwrap() as usize;
        let (pack, idx) = addrs[p][k];
        *v = json!({"c": [pack, idx]});
    }
}

pub fn run(s: &Scn) {
    emit(json!({"ev":"Begin","scn":s.id}));
    std::fs::create_dir_all(&s.dir).unwrap();
    let r = catch(|| create(s));
    match r {
        Ok(Ok(())) => {
            emit(json!({"ev":"Finalize","ok":true,"file":format!("{}/{}", s.dir, s.out)}))
        }
        Ok(Err(e)) => emit(json!({"ev":"Finalize","ok":false,"err":e})),
        Err(p) => {
            emit(json!({"ev":"Finalize","ok":false,"panic":p,"site":crate::out::last_panic_site()}))
        }
    }
    emit(json!({"ev":"End","scn":s.id}));
}

fn create(s: &Scn) -> Result<(), String> {
    let path = format!("{}/{}", s.dir, s.out);
    let prog: Arc<dyn jbk::creator::Progress> =
        Arc::new(content::Prog::new(s.delay_seed, s.delay_max_us));
    let mut c = jbk::creator::BasicCreator::new(
        &path,
        content::concat_mode(&s.concat),
        jbk::VendorId::from([1, 0, 0, 0]),
        content::compression(&s.comp, s.level),
        prog,
    )
    .map_err(|e| format!("new: {e}"))?;
    let mut addrs: Vec<Vec<(u16, u32)>> = vec![vec![]];
    for (i, op) in s.ops.iter().enumerate() {
        let data = gen::content(op.cid, op.size, &op.cls);
        let input = content::make_input(&s.dir, i, op, data);
        let a = c
            .add_content(input, content::hint(&op.hint))
            .map_err(|e| format!("add {i}: {e}"))?;
        emit(
            json!({"ev":"Add","packno":0,"i":i,"cid":op.cid,"size":op.size,"cls":op.cls,
                    "pack":a.pack_id.into_u16(),"idx":a.content_id.into_u32()}),
        );
        addrs[0].push((a.pack_id.into_u16(), a.content_id.into_u32()));
    }
    let mut extra_creators: Vec<ContentPackCreator<dyn PackRecipient>> = vec![];
    for (j, ex) in s.extras.iter().enumerate() {
        let f: Box<dyn PackRecipient> =
            jbk::creator::AtomicOutFile::new(format!("{}/{}", s.dir, ex.file))
                .map_err(|e| e.to_string())?;
        let mut pc = ContentPackCreator::<dyn PackRecipient>::new_from_output(
            f,
            jbk::PackId::from(ex.pack_id),
            jbk::VendorId::from([1, 0, 0, 0]),
            Default::default(),
            content::compression(&ex.comp, ex.level),
        )
        .map_err(|e| format!("extra new: {e}"))?;
        let mut a_ = vec![];
        for (i, op) in ex.ops.iter().enumerate() {
            let data = gen::content(op.cid, op.size, &op.cls);
            let input = content::make_input(&s.dir, 1000 * (j + 1) + i, op, data);
            let a = pc
                .add_content(input, content::hint(&op.hint))
                .map_err(|e| format!("extra add: {e}"))?;
            emit(
                json!({"ev":"Add","packno":j+1,"i":i,"cid":op.cid,"size":op.size,"cls":op.cls,
                        "pack":a.pack_id.into_u16(),"idx":a.content_id.into_u32()}),
            );
            a_.push((a.pack_id.into_u16(), a.content_id.into_u32()));
        }
        addrs.push(a_);
        extra_creators.push(pc);
    }
    let mut d = s.dirpack.clone();
    for e in d.entries.iter_mut() {
        for (_, v) in e.values.iter_mut() {
            resolve(v, &addrs);
        }
    }
    c.finalize(Box::new(Store { scn: d }), extra_creators)
        .map_err(|e| format!("finalize: {e}"))?;
    for i in 0..s.ops.len() {
        let _ = std::fs::remove_file(format!("{}/in_{i}.bin", s.dir));
    }
    Ok(())
}

// ------------------------------------------------------------------ dump
#[derive(Deserialize, Clone)]
pub struct DumpScn {
    pub id: String,
    pub file: String,
    pub indexes: Vec<String>,
    pub props: Vec<String>,
    pub packs: Vec<u16>,
    #[serde(default)]
    pub max_content: u32,
    /// damage applied to `target` (default: `file`) before the dump and undone after it
    #[serde(default)]
    pub damage: Option<Damage>,
    /// after the dump, open the container again and let this many threads read every content at
    /// the same time (several readers waiting on the same, possibly failing, decoder)
    #[serde(default)]
    pub threads: usize,
    /// also open the damaged file directly with every pack reader (tools::open_pack, DirectoryPack::new, ContentPack::new,
    /// ManifestPack::new over a reader covering the whole file) and read through whatever opens
    #[serde(default)]
    pub direct: bool,
    /// read only the entries [from, to) of every index (stores of tens of thousands of entries under a damage sweep)
    #[serde(default)]
    pub entry_window: Option<(u32, u32)>,
    /// do not read the entries through the typed property builders as well (sweeps over stores of thousands of entries)
    #[serde(default)]
    pub no_typed: bool,
}

#[derive(Deserialize, Clone)]
pub struct Damage {
    #[serde(default)]
    pub target: Option<String>,
    /// "xor" (pos, mask) | "zero" (pos, len) | "fill" (pos, len, mask as fill byte) | "trunc" (len) | "append" (len) | "replace" (whole file := len bytes of junk)
    pub kind: String,
    #[serde(default)]
    pub pos: u64,
    #[serde(default)]
    pub len: u64,
    #[serde(default)]
    pub mask: u8,
    /// bytes set after the alteration itself: (position, value) - the CRC of the altered block recomputed by the checker
    #[serde(default)]
    pub extra: Vec<(u64, u8)>,
}

fn apply_damage(orig: &[u8], d: &Damage) -> Vec<u8> {
    let mut v = orig.to_vec();
    let pos = d.pos as usize;
    let len = d.len as usize;
    match d.kind.as_str() {
        "xor" => {
            if pos < v.len() {
                v[pos] ^= d.mask;
            }
        }
        "zero" | "fill" => {
            let fill = if d.kind == "zero" { 0 } else { d.mask };
            for b in v.iter_mut().skip(pos).take(len) {
                *b = fill;
            }
        }
        "trunc" => v.truncate(len),
        "append" => {
            for k in 0..len {
                v.push((k as u8).wrapping_mul(37) ^ d.mask);
            }
        }
        "replace" => {
            v = (0..len)
                .map(|k| (k as u8).wrapping_mul(101) ^ d.mask)
                .collect();
        }
        k => panic!("unknown damage kind {k}"),
    }
    for (p, b) in &d.extra {
        if (*p as usize) < v.len() {
            v[*p as usize] = *b;
        }
    }
    v
}

fn b3(data: &[u8]) -> String {
    blake3::hash(data).to_hex().to_string()
}

pub fn dump_value(c: &jbk::reader::Container, s: &DumpScn) -> J {
    let mut out = serde_json::Map::new();
    out.insert("packCount".into(), json!(c.pack_count().into_u16()));
    // indexes and entries
    let mut idxs = vec![];
    for name in &s.indexes {
        let r = catch(|| -> Result<J, String> {
            let index = match c.get_index_for_name(name) {
                Ok(Some(i)) => i,
                Ok(None) => return Ok(json!({"name": name, "res": "none"})),
                Err(e) => return Ok(json!({"name": name, "res": "err", "err": e.to_string()})),
            };
            let store = match index.get_store(c.get_entry_storage()) {
                Ok(s) => s,
                Err(e) => {
                    return Ok(json!({"name": name, "res": "err", "err": format!("store: {e}")}))
                }
            };
            let vnames = entries::variant_names(&store);
            let n = index.count().into_u32();
            let (from, to) = match s.entry_window {
                Some((a, b)) => (std::cmp::min(a, n), std::cmp::min(b, n)),
                None => (0, std::cmp::min(n, 100_000)),
            };
            // every entry through the typed property builders, whatever the generic builder says (a panic is recorded, not fatal)
            let mut typed = vec![];
            if let (false, Ok(st)) = (s.no_typed, index.get_store(c.get_entry_storage())) {
                for i in from..to {
                    let t = catch(|| {
                        entries::typed_values_any(
                            &st,
                            c.get_value_storage().as_ref(),
                            index.offset() + jbk::EntryIdx::from(i),
                        )
                    });
                    typed.push(match t {
                        Ok(Some(m)) => J::Object(m),
                        Ok(None) => json!("none"),
                        Err(p) => json!({"panic": p}),
                    });
                }
            }
            let builder = match jbk::reader::builder::AnyBuilder::new(
                store,
                c.get_value_storage().as_ref(),
            ) {
                Ok(b) => b,
                Err(e) => {
                    return Ok(
                        json!({"name": name, "res": "err", "err": format!("builder: {e}"), "typedEntries": typed, "entriesFrom": from}),
                    )
                }
            };
            let mut es = vec![];
            for i in from..to {
                match index.get_entry(&builder, jbk::EntryIdx::from(i)) {
                    Ok(Some(e)) => match entries::entry_json(&e, &s.props, &vnames) {
                        Ok(j) => es.push(j),
                        Err(err) => es.push(json!({"err": err})),
                    },
                    Ok(None) => es.push(json!({"none": true})),
                    Err(err) => es.push(json!({"err": err.to_string()})),
                }
            }
            Ok(
                json!({"name": name, "res": "ok", "count": n, "offset": index.offset().into_u32(), "entries": es, "entriesFrom": from, "typedEntries": typed}),
            )
        });
        idxs.push(match r {
            Ok(Ok(j)) => j,
            Ok(Err(e)) => json!({"name": name, "res": "err", "err": e}),
            Err(p) => json!({"name": name, "res": "panic", "panic": p, "site": crate::out::last_panic_site()}),
        });
    }
    out.insert("indexes".into(), J::Array(idxs));
    // contents of every pack
    let mut packs = vec![];
    for pid in &s.packs {
        let r = catch(|| -> J {
            let pack = match c.get_pack(jbk::PackId::from(*pid)) {
                Ok(Some(MayMissPack::FOUND(p))) => p,
                Ok(Some(MayMissPack::MISSING(pi))) => {
                    // still ask for a content: the answer must be MISSING too
                    let a =
                        jbk::ContentAddress::new(jbk::PackId::from(*pid), jbk::ContentIdx::from(0));
                    let via_bytes = match c.get_bytes(a) {
                        Ok(Some(MayMissPack::MISSING(pi2))) => {
                            json!({"missing": pi2.uuid.to_string()})
                        }
                        Ok(Some(MayMissPack::FOUND(_))) => json!("found"),
                        Ok(None) => json!("nopack"),
                        Err(e) => json!({"err": e.to_string()}),
                    };
                    return json!({"pack": pid, "res": "missing", "uuid": pi.uuid.to_string(),
                                  "location": pi.pack_location.as_str(), "packId": pi.pack_id.into_u16(), "viaBytes": via_bytes});
                }
                Ok(None) => return json!({"pack": pid, "res": "nopack"}),
                Err(e) => return json!({"pack": pid, "res": "err", "err": e.to_string()}),
            };
            let n = pack.get_content_count().into_u32();
            let mut items = vec![];
            let lim = if s.max_content > 0 {
                std::cmp::min(n, s.max_content)
            } else {
                n
            };
            for idx in 0..lim {
                let a =
                    jbk::ContentAddress::new(jbk::PackId::from(*pid), jbk::ContentIdx::from(idx));
                items.push(match c.get_bytes(a) {
                    Ok(Some(MayMissPack::FOUND(Some(region)))) => match content::read_region(&region) {
                        Ok(d) => json!({"res": "ok", "size": d.len(), "b3": b3(&d), "declared": region.size().into_u64()}),
                        Err(e) => json!({"res": "err", "err": e.to_string()}),
                    },
                    Ok(Some(MayMissPack::FOUND(None))) => json!({"res": "none"}),
                    Ok(Some(MayMissPack::MISSING(pi))) => json!({"res": "missing", "uuid": pi.uuid.to_string()}),
                    Ok(None) => json!({"res": "nopack"}),
                    Err(e) => json!({"res": "err", "err": e.to_string()}),
                });
            }
            json!({"pack": pid, "res": "ok", "count": n, "items": items})
        });
        packs.push(match r {
            Ok(j) => j,
            Err(p) => json!({"pack": pid, "res": "panic", "panic": p, "site": crate::out::last_panic_site()}),
        });
    }
    out.insert("contents".into(), J::Array(packs));
    // the check of every pack on its own
    {
        use jbk::Pack;
        let mut pc = serde_json::Map::new();
        let tri = |r: Result<jbk::Result<bool>, String>| match r {
            Ok(Ok(b)) => json!(b),
            Ok(Err(e)) => json!({"err": e.to_string()}),
            Err(p) => json!({"panic": p, "site": crate::out::last_panic_site()}),
        };
        pc.insert("d".into(), tri(catch(|| c.get_directory_pack().check())));
        for pid in &s.packs {
            let r = catch(|| match c.get_pack(jbk::PackId::from(*pid)) {
                Ok(Some(MayMissPack::FOUND(p))) => p.check().map(Some),
                Ok(_) => Ok(None),
                Err(e) => Err(e),
            });
            pc.insert(
                pid.to_string(),
                match r {
                    Ok(Ok(Some(b))) => json!(b),
                    Ok(Ok(None)) => json!("absent"),
                    Ok(Err(e)) => json!({"err": e.to_string()}),
                    Err(p) => json!({"panic": p, "site": crate::out::last_panic_site()}),
                },
            );
        }
        let m = catch(|| manifest_view(&s.file));
        pc.insert(
            "m".into(),
            match m {
                Ok(Ok(v)) => v["check"].clone(),
                Ok(Err(e)) => json!({"err": e}),
                Err(p) => json!({"panic": p, "site": crate::out::last_panic_site()}),
            },
        );
        out.insert("packChecks".into(), J::Object(pc));
    }
    let chk = catch(|| c.check());
    out.insert(
        "check".into(),
        match chk {
            Ok(Ok(b)) => json!(b),
            Ok(Err(e)) => json!({"err": e.to_string()}),
            Err(p) => json!({"panic": p, "site": crate::out::last_panic_site()}),
        },
    );
    J::Object(out)
}

pub fn dump(s: &DumpScn) {
    emit(json!({"ev":"Begin","scn":s.id}));
    let mut undo: Option<(String, Vec<u8>)> = None;
    if let Some(d) = &s.damage {
        let target = d.target.clone().unwrap_or_else(|| s.file.clone());
        let orig = std::fs::read(&target).expect("read damage target");
        let damaged = apply_damage(&orig, d);
        let changed = damaged != orig;
        // new inode: a leaked reader of an earlier case (spinning decoder) keeps the old one
        let _ = std::fs::remove_file(&target);
        std::fs::write(&target, &damaged).expect("write damaged file");
        emit(json!({"ev":"Damaged","changed":changed,"size":damaged.len()}));
        undo = Some((target, orig));
    }
    dump_inner(s);
    if let Some((target, orig)) = undo {
        let _ = std::fs::remove_file(&target);
        std::fs::write(&target, &orig).expect("restore damaged file");
    }
    emit(json!({"ev":"End","scn":s.id}));
}

/// The file opened without going through Container / FsLocator: each pack reader is given a reader covering the file as it
/// is.  Results are values ("ok" / "err"); a panic is recorded with its site.
fn direct_open(path: &str, names: &[String], props: &[String]) -> J {
    use jbk::Pack;
    let mut out = vec![];
    let mut rec = |who: &str, r: Result<Result<String, String>, String>| {
        out.push(match r {
            Ok(Ok(v)) => json!({"reader": who, "res": "ok", "what": v}),
            Ok(Err(e)) => json!({"reader": who, "res": "err", "err": e.chars().take(100).collect::<String>()}),
            Err(p) => json!({"reader": who, "res": "panic", "panic": p, "site": crate::out::last_panic_site()}),
        })
    };
    let whole = || -> Result<jbk::Reader, String> {
        Ok(jbk::FileSource::open(path)
            .map_err(|e| e.to_string())?
            .into())
    };
    rec(
        "open_pack",
        catch(|| -> Result<String, String> {
            let cp = jbk::tools::open_pack(path).map_err(|e| e.to_string())?;
            let chk = cp.check().map_err(|e| e.to_string())?;
            let has_manifest = cp
                .get_manifest_pack_reader()
                .map_err(|e| e.to_string())?
                .is_some();
            Ok(format!(
                "packs={} check={chk} manifest={has_manifest}",
                cp.pack_count().into_u16()
            ))
        }),
    );
    rec(
        "DirectoryPack",
        catch(|| -> Result<String, String> {
            let pack =
                Arc::new(jbk::reader::DirectoryPack::new(whole()?).map_err(|e| e.to_string())?);
            let es = pack.create_entry_storage();
            let vs = pack.create_value_storage();
            let mut n = 0u64;
            for name in names {
                if let Some(index) = pack.get_index_from_name(name).map_err(|e| e.to_string())? {
                    let store = index.get_store(&es).map_err(|e| e.to_string())?;
                    let vnames = entries::variant_names(&store);
                    let builder = jbk::reader::builder::AnyBuilder::new(store, vs.as_ref())
                        .map_err(|e| e.to_string())?;
                    for i in 0..std::cmp::min(index.count().into_u32(), 2000) {
                        if let Some(e) = index
                            .get_entry(&builder, jbk::EntryIdx::from(i))
                            .map_err(|e| e.to_string())?
                        {
                            let _ = entries::entry_json(&e, props, &vnames);
                            n += 1;
                        }
                    }
                }
            }
            let chk = pack.check().map_err(|e| e.to_string())?;
            Ok(format!("entries={n} check={chk}"))
        }),
    );
    rec(
        "ContentPack",
        catch(|| -> Result<String, String> {
            let pack = jbk::reader::ContentPack::new(whole()?).map_err(|e| e.to_string())?;
            let mut n = 0u64;
            for i in 0..std::cmp::min(pack.get_content_count().into_u32(), 3000) {
                if let Some(region) = pack
                    .get_content(jbk::ContentIdx::from(i))
                    .map_err(|e| e.to_string())?
                {
                    let mut v = vec![];
                    use std::io::Read;
                    region
                        .stream()
                        .read_to_end(&mut v)
                        .map_err(|e| e.to_string())?;
                    n += v.len() as u64;
                }
            }
            let chk = pack.check().map_err(|e| e.to_string())?;
            Ok(format!("bytes={n} check={chk}"))
        }),
    );
    rec(
        "ManifestPack",
        catch(|| -> Result<String, String> {
            let m = jbk::reader::ManifestPack::new(whole()?).map_err(|e| e.to_string())?;
            let n = m.get_pack_infos().len();
            let chk = m.check().map_err(|e| e.to_string())?;
            Ok(format!("infos={n} check={chk}"))
        }),
    );
    json!(out)
}

fn dump_inner(s: &DumpScn) {
    if s.direct {
        let target = s
            .damage
            .as_ref()
            .and_then(|d| d.target.clone())
            .unwrap_or_else(|| s.file.clone());
        emit(
            json!({"ev":"Direct","file":target,"readers":direct_open(&target, &s.indexes, &s.props)}),
        );
    }
    let r = catch(|| jbk::reader::Container::new(&s.file));
    match r {
        Ok(Ok(c)) => {
            let d = dump_value(&c, s);
            emit(json!({"ev":"Dump","open":"ok","dump":d}));
            if s.threads > 0 {
                concurrent_read(s);
            }
        }
        Ok(Err(e)) => emit(json!({"ev":"Dump","open":"err","err":e.to_string()})),
        Err(p) => {
            emit(json!({"ev":"Dump","open":"panic","panic":p,"site":crate::out::last_panic_site()}))
        }
    }
}

/// N threads read every content of every pack of a freshly opened container at the same time.
fn concurrent_read(s: &DumpScn) {
    let c = match catch(|| jbk::reader::Container::new(&s.file)) {
        Ok(Ok(c)) => Arc::new(c),
        _ => return,
    };
    let mut packs: Vec<(u16, u32)> = vec![];
    for pid in &s.packs {
        if let Ok(Some(MayMissPack::FOUND(p))) = c.get_pack(jbk::PackId::from(*pid)) {
            packs.push((*pid, p.get_content_count().into_u32()));
        }
    }
    let results = std::sync::Mutex::new((0usize, 0usize, 0usize));
    std::thread::scope(|sc| {
        for t in 0..s.threads {
            let c = &c;
            let packs = &packs;
            let results = &results;
            sc.spawn(move || {
                for (pid, n) in packs.iter() {
                    for k in 0..*n {
                        // every thread visits the contents in the same order: they meet on the same clusters
                        let idx = (k + (t as u32 % 2)) % n;
                        let a = jbk::ContentAddress::new(
                            jbk::PackId::from(*pid),
                            jbk::ContentIdx::from(idx),
                        );
                        let r = catch(|| match c.get_bytes(a) {
                            Ok(Some(MayMissPack::FOUND(Some(region)))) => {
                                content::read_region(&region).is_ok()
                            }
                            _ => false,
                        });
                        let mut g = results.lock().unwrap();
                        match r {
                            Ok(true) => g.0 += 1,
                            Ok(false) => g.1 += 1,
                            Err(_) => g.2 += 1,
                        }
                    }
                }
            });
        }
    });
    let g = results.lock().unwrap();
    emit(json!({"ev":"Concurrent","threads":s.threads,"ok":g.0,"err":g.1,"panic":g.2}));
}

// ------------------------------------------------------------------ tools (concat, set_location, manifest view)
#[derive(Deserialize, Clone)]
pub struct ToolScn {
    pub id: String,
    pub op: String,
    #[serde(default)]
    pub inputs: Vec<String>,
    #[serde(default)]
    pub out: String,
    #[serde(default)]
    pub file: String,
    #[serde(default)]
    pub uuid: String,
    #[serde(default)]
    pub loc: String,
    /// make_manifest: synthetic pack descriptions (the packs themselves need not exist)
    #[serde(default)]
    pub packs: Vec<SynthPack>,
    #[serde(default)]
    pub in_container: bool,
}

#[derive(Deserialize, Clone)]
pub struct SynthPack {
    pub uuid: String,
    pub pack_id: u16,
    pub free_len: usize,
    pub free_seed: u32,
    pub loc: String,
}

/// A manifest written with ManifestPackCreator over one real (tiny) directory pack and any number
/// of synthetic content-pack descriptions with free data of any length: manifests whose pack-info
/// table starts far from the beginning, which BasicCreator never produces.
fn make_manifest(s: &ToolScn) -> Result<J, String> {
    use std::io::{Seek, Write};
    let dir = std::path::Path::new(&s.out)
        .parent()
        .ok_or("no parent")?
        .to_path_buf();
    let open = |p: &std::path::Path| {
        std::fs::OpenOptions::new()
            .read(true)
            .write(true)
            .create(true)
            .truncate(true)
            .open(p)
            .map_err(|e| e.to_string())
    };
    // model content pack (gives a valid check info / kind / size)
    let cpath = camino::Utf8PathBuf::from_path_buf(dir.join("model.jbkc")).map_err(|_| "utf8")?;
    let mut cc = jbk::creator::ContentPackCreator::new(
        &cpath,
        jbk::PackId::from(1),
        jbk::VendorId::from([1, 0, 0, 0]),
        Default::default(),
        jbk::creator::Compression::None,
    )
    .map_err(|e| e.to_string())?;
    cc.add_content(
        Box::new(std::io::Cursor::new(b"model".to_vec())),
        Default::default(),
    )
    .map_err(|e| e.to_string())?;
    let (_f, model) = cc.finalize().map_err(|e| e.to_string())?;
    let dc = jbk::creator::DirectoryPackCreator::new(
        jbk::PackId::from(0),
        jbk::VendorId::from([1, 0, 0, 0]),
        Default::default(),
    );
    let dpath = dir.join("directory.jbkd");
    let mut dfile = open(&dpath)?;
    let ddata = dc
        .finalize()
        .map_err(|e| e.to_string())?
        .write(&mut dfile)
        .map_err(|e| e.to_string())?;
    let duuid = ddata.uuid;
    let mut mc = jbk::creator::ManifestPackCreator::new(
        jbk::VendorId::from([1, 0, 0, 0]),
        Default::default(),
    );
    mc.add_pack(ddata, "directory.jbkd");
    for p in &s.packs {
        let pd = jbk::creator::PackData {
            uuid: uuid::Uuid::parse_str(&p.uuid).map_err(|e| e.to_string())?,
            pack_size: model.pack_size,
            pack_kind: model.pack_kind,
            pack_id: jbk::PackId::from(p.pack_id),
            free_data: gen::content(p.free_seed, p.free_len as u64, "rand"),
            check_info: model.check_info,
        };
        mc.add_pack(pd, p.loc.as_str());
    }
    let mpath = if s.in_container {
        dir.join("manifest.tmp")
    } else {
        std::path::PathBuf::from(&s.out)
    };
    let mut mfile = open(&mpath)?;
    let muuid = mc.finalize(&mut mfile).map_err(|e| e.to_string())?;
    mfile.flush().map_err(|e| e.to_string())?;
    if s.in_container {
        let out = camino::Utf8PathBuf::from(&s.out);
        let mut cont = jbk::creator::ContainerPackCreator::new(&out, Default::default())
            .map_err(|e| e.to_string())?;
        dfile.rewind().map_err(|e| e.to_string())?;
        cont.add_pack(duuid, &mut dfile)
            .map_err(|e| e.to_string())?;
        mfile.rewind().map_err(|e| e.to_string())?;
        cont.add_pack(muuid, &mut mfile)
            .map_err(|e| e.to_string())?;
        cont.finalize().map_err(|e| e.to_string())?;
        let _ = std::fs::remove_file(&mpath);
    }
    let _ = std::fs::remove_file(cpath);
    Ok(json!({"manifest": muuid.to_string(), "directory": duuid.to_string()}))
}

pub fn manifest_view(file: &str) -> Result<J, String> {
    use jbk::Pack;
    let cp = jbk::tools::open_pack(file).map_err(|e| format!("open_pack: {e}"))?;
    let r = cp
        .get_manifest_pack_reader()
        .map_err(|e| format!("manifest reader: {e}"))?
        .ok_or_else(|| "no manifest".to_string())?;
    let m = jbk::reader::ManifestPack::new(r).map_err(|e| format!("ManifestPack::new: {e}"))?;
    let mut infos = vec![];
    let di = m.get_directory_pack_info();
    for pi in std::iter::once(di).chain(m.get_pack_infos().iter()) {
        infos.push(json!({"uuid": pi.uuid.to_string(), "packId": pi.pack_id.into_u16(), "packSize": pi.pack_size.into_u64(),
                          "location": pi.pack_location.as_str(), "kind": format!("{:?}", pi.pack_kind)}));
    }
    let chk = match m.check() {
        Ok(b) => json!(b),
        Err(e) => json!({"err": e.to_string()}),
    };
    Ok(json!({"uuid": m.uuid().to_string(), "infos": infos, "check": chk}))
}

pub fn tool(s: &ToolScn) {
    emit(json!({"ev":"Begin","scn":s.id}));
    let r = catch(|| -> Result<J, String> {
        match s.op.as_str() {
            "concat" => {
                jbk::tools::concat(&s.inputs, &s.out).map_err(|e| e.to_string())?;
                Ok(json!({"out": s.out}))
            }
            "set_location" => {
                let u = uuid::Uuid::parse_str(&s.uuid).map_err(|e| e.to_string())?;
                let r = jbk::tools::set_location(&s.file, u, s.loc.as_str().into())
                    .map_err(|e| e.to_string())?;
                Ok(match r {
                    Some((kind, old)) => {
                        json!({"found": true, "kind": format!("{kind:?}"), "old": old.as_str()})
                    }
                    None => json!({"found": false}),
                })
            }
            "manifest" => manifest_view(&s.file),
            "make_manifest" => make_manifest(s),
            o => Err(format!("unknown tool op {o}")),
        }
    });
    match r {
        Ok(Ok(j)) => emit(json!({"ev":"Tool","op":s.op,"res":"ok","out":j})),
        Ok(Err(e)) => emit(json!({"ev":"Tool","op":s.op,"res":"err","err":e})),
        Err(p) => emit(
            json!({"ev":"Tool","op":s.op,"res":"panic","panic":p,"site":crate::out::last_panic_site()}),
        ),
    }
    emit(json!({"ev":"End","scn":s.id}));
}
