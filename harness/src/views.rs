//! View-algebra scenarios (C13): a tiny interpreter applying public API operations to views of
//! one stored content and logging what each returns.
use crate::out::{catch, emit};
use jbk::reader::{ByteRegion, ByteSlice, ByteStream};
use jubako as jbk;
use serde::Deserialize;
use serde_json::json;
use std::io::Read;
use std::sync::Arc;

#[derive(Deserialize, Clone)]
pub struct VOp {
    pub op: String,
    pub v: usize, // 1-based view index
    #[serde(default)]
    pub a: u64,
    #[serde(default)]
    pub n: u64,
}

#[derive(Deserialize, Clone)]
pub struct Scn {
    pub id: String,
    pub file: String,
    /// "pack-mem" | "pack-file" (bare content pack, whole file in memory / from the file),
    /// "container" (reader::Container), "entry" (entry bytes of a directory pack)
    pub source: String,
    #[serde(default)]
    pub pack: u16,
    #[serde(default)]
    pub idx: u32,
    pub ops: Vec<VOp>,
}

enum View<'a> {
    Region(ByteRegion),
    Slice(ByteSlice<'a>),
    Stream(ByteStream),
}

fn hex(b: &[u8]) -> String {
    if b.len() <= 96 {
        b.iter().map(|x| format!("{:02x}", x)).collect()
    } else {
        let head: String = b[..16].iter().map(|x| format!("{:02x}", x)).collect();
        if b.len() <= 8192 {
            format!("b3:{}:{}:{}", b.len(), blake3::hash(b).to_hex(), head)
        } else {
            // long returns: CRC-32 (IEEE) and Adler-32, which the checker computes at native speed
            format!(
                "z:{}:{:08x}{:08x}:{}",
                b.len(),
                crc32_ieee(b),
                adler32(b),
                head
            )
        }
    }
}

fn crc32_ieee(b: &[u8]) -> u32 {
    let mut table = [0u32; 256];
    for (i, t) in table.iter_mut().enumerate() {
        let mut c = i as u32;
        for _ in 0..8 {
            c = if c & 1 != 0 {
                0xEDB8_8320 ^ (c >> 1)
            } else {
                c >> 1
            };
        }
        *t = c;
    }
    let mut c = 0xFFFF_FFFFu32;
    for x in b {
        c = table[((c ^ *x as u32) & 0xFF) as usize] ^ (c >> 8);
    }
    c ^ 0xFFFF_FFFF
}

fn adler32(b: &[u8]) -> u32 {
    let (mut a, mut s) = (1u32, 0u32);
    for x in b {
        a = (a + *x as u32) % 65521;
        s = (s + a) % 65521;
    }
    (s << 16) | a
}

fn observe(v: &View, k: usize, op: &str) {
    match v {
        View::Region(r) => {
            let sz = r.size().into_u64();
            let bytes = r
                .get_slice(jbk::Offset::zero(), sz as usize)
                .map(|c| hex(&c))
                .unwrap_or_else(|e| format!("err:{e}"));
            emit(json!({"ev":"Obs","op":op,"view":k,"kind":"region","size":sz,"bytes":bytes}));
        }
        View::Slice(s) => {
            let sz = s.size().into_u64();
            let bytes = s
                .get_slice(jbk::Offset::zero(), sz as usize)
                .map(|c| hex(&c))
                .unwrap_or_else(|e| format!("err:{e}"));
            emit(json!({"ev":"Obs","op":op,"view":k,"kind":"slice","size":sz,"bytes":bytes}));
        }
        View::Stream(s) => {
            emit(
                json!({"ev":"Obs","op":op,"view":k,"kind":"stream","size":s.size(),"offset":s.offset(),"sizeLeft":s.size_left()}),
            );
        }
    }
}

fn interpret<'a>(root: View<'a>, root_region: &'a ByteRegion, ops: &[VOp]) {
    // views own their data (regions / streams) or borrow from a region kept alive in `keep`
    let mut views: Vec<View<'a>> = vec![root];
    let _ = root_region;
    observe(&views[0], 1, "root");
    for o in ops {
        let k = o.v - 1;
        if k >= views.len() {
            emit(json!({"ev":"Obs","op":o.op,"view":o.v,"kind":"skip"}));
            continue;
        }
        let nviews = views.len();
        let new: Option<View<'a>> = match (o.op.as_str(), &mut views[k]) {
            ("cut", View::Region(r)) => {
                // ByteRegion::cut borrows the region: turn it into an owned region to keep lifetimes simple,
                // but report it as the slice it is
                let s = r.cut(jbk::Offset::from(o.a), jbk::Size::from(o.n));
                let sz = s.size().into_u64();
                let bytes = s
                    .get_slice(jbk::Offset::zero(), sz as usize)
                    .map(|c| hex(&c))
                    .unwrap_or_else(|e| format!("err:{e}"));
                emit(
                    json!({"ev":"Obs","op":"cut","view":nviews+1,"kind":"slice","size":sz,"bytes":bytes}),
                );
                let owned: ByteRegion = s.into();
                let leaked: &'a ByteRegion = Box::leak(Box::new(owned));
                Some(View::Slice(leaked.as_slice()))
            }
            ("cut", View::Slice(s)) => Some(View::Slice(
                s.cut(jbk::Offset::from(o.a), jbk::Size::from(o.n)),
            )),
            ("as_slice", View::Region(r)) => {
                let leaked: &'a ByteRegion = Box::leak(Box::new(r.clone()));
                Some(View::Slice(leaked.as_slice()))
            }
            ("to_region", View::Slice(s)) => Some(View::Region(s.clone().into())),
            ("stream", View::Region(r)) => Some(View::Stream(r.stream())),
            ("stream", View::Slice(s)) => Some(View::Stream(s.stream())),
            ("into_stream", View::Region(r)) => Some(View::Stream(ByteStream::from(r.clone()))),
            ("read", View::Stream(s)) => {
                let mut buf = vec![0u8; o.n as usize];
                let got = match s.read(&mut buf) {
                    Ok(g) => g,
                    Err(e) => {
                        emit(
                            json!({"ev":"Obs","op":"read","view":o.v,"kind":"err","err":e.to_string()}),
                        );
                        continue;
                    }
                };
                emit(
                    json!({"ev":"Obs","op":"read","view":o.v,"kind":"read","n":o.n,"got":got,"bytes":hex(&buf[..got]),
                            "size":s.size(),"offset":s.offset(),"sizeLeft":s.size_left()}),
                );
                None
            }
            ("read_exact", View::Stream(s)) => {
                // all n bytes or an error (the scenario asks for no more than what is left; if it does, a plain read)
                let n = std::cmp::min(o.n, s.size_left()) as usize;
                let mut buf = vec![0u8; n];
                match s.read_exact(&mut buf) {
                    Ok(()) => emit(
                        json!({"ev":"Obs","op":"read_exact","view":o.v,"kind":"read","n":n,"got":n,"bytes":hex(&buf),
                            "size":s.size(),"offset":s.offset(),"sizeLeft":s.size_left()}),
                    ),
                    Err(e) => emit(
                        json!({"ev":"Obs","op":"read_exact","view":o.v,"kind":"err","err":e.to_string()}),
                    ),
                }
                None
            }
            ("read_to_end", View::Stream(s)) => {
                // into a vector that already holds something: the contract is to append
                let marker = b"\xA5keep\x5A".to_vec();
                let mut v = marker.clone();
                match s.read_to_end(&mut v) {
                    Ok(got) => {
                        if v.len() < marker.len() || v[..marker.len()] != marker[..] || v.len() != marker.len() + got {
                            emit(
                                json!({"ev":"Obs","op":"read_to_end","view":o.v,"kind":"err",
                                    "err":format!("read_to_end returned {} and left a vector of {} bytes whose first {} bytes were {}",
                                        got, v.len(), marker.len(), if v.len() >= marker.len() && v[..marker.len()] == marker[..] {"kept"} else {"overwritten"})}),
                            );
                        } else {
                            emit(
                                json!({"ev":"Obs","op":"read_to_end","view":o.v,"kind":"read","n":got,"got":got,"bytes":hex(&v[marker.len()..]),
                                    "size":s.size(),"offset":s.offset(),"sizeLeft":s.size_left()}),
                            );
                        }
                    }
                    Err(e) => emit(
                        json!({"ev":"Obs","op":"read_to_end","view":o.v,"kind":"err","err":e.to_string()}),
                    ),
                }
                None
            }
            ("get_slice", View::Region(r)) => {
                let b = r
                    .get_slice(jbk::Offset::from(o.a), o.n as usize)
                    .map(|c| hex(&c))
                    .unwrap_or_else(|e| format!("err:{e}"));
                emit(
                    json!({"ev":"Obs","op":"get_slice","view":o.v,"kind":"bytes","a":o.a,"n":o.n,"bytes":b}),
                );
                None
            }
            ("get_slice", View::Slice(s)) => {
                let b = s
                    .get_slice(jbk::Offset::from(o.a), o.n as usize)
                    .map(|c| hex(&c))
                    .unwrap_or_else(|e| format!("err:{e}"));
                emit(
                    json!({"ev":"Obs","op":"get_slice","view":o.v,"kind":"bytes","a":o.a,"n":o.n,"bytes":b}),
                );
                None
            }
            _ => {
                emit(json!({"ev":"Obs","op":o.op,"view":o.v,"kind":"skip"}));
                None
            }
        };
        if let Some(v) = new {
            let is_cut_of_region = o.op == "cut" && matches!(views[k], View::Region(_));
            views.push(v);
            if !is_cut_of_region {
                observe(&views[views.len() - 1], views.len(), &o.op);
            }
        }
    }
}

pub fn run(s: &Scn) {
    emit(json!({"ev":"Begin","scn":s.id}));
    let r = catch(|| -> Result<(), String> {
        match s.source.as_str() {
            "pack-mem" | "pack-file" => {
                let reader: jbk::Reader = if s.source == "pack-mem" {
                    std::fs::read(&s.file).map_err(|e| e.to_string())?.into()
                } else {
                    jbk::FileSource::open(&s.file)
                        .map_err(|e| e.to_string())?
                        .into()
                };
                let pack =
                    jbk::reader::ContentPack::new(reader).map_err(|e| format!("open: {e}"))?;
                let region = pack
                    .get_content(jbk::ContentIdx::from(s.idx))
                    .map_err(|e| format!("get_content: {e}"))?
                    .ok_or("no such content")?;
                let leaked: &'static ByteRegion = Box::leak(Box::new(region.clone()));
                interpret(View::Region(region), leaked, &s.ops);
            }
            "container" => {
                let c = jbk::reader::Container::new(&s.file).map_err(|e| format!("open: {e}"))?;
                let a = jbk::ContentAddress::new(
                    jbk::PackId::from(s.pack),
                    jbk::ContentIdx::from(s.idx),
                );
                let region = match c.get_bytes(a).map_err(|e| format!("get_bytes: {e}"))? {
                    Some(jbk::reader::MayMissPack::FOUND(Some(r))) => r,
                    _ => return Err("content not found".into()),
                };
                let leaked: &'static ByteRegion = Box::leak(Box::new(region.clone()));
                interpret(View::Region(region), leaked, &s.ops);
            }
            "entry" => {
                let reader: jbk::Reader = jbk::FileSource::open(&s.file)
                    .map_err(|e| e.to_string())?
                    .into();
                let pack = Arc::new(
                    jbk::reader::DirectoryPack::new(reader).map_err(|e| format!("open: {e}"))?,
                );
                let es = pack.create_entry_storage();
                let index = pack
                    .get_index_from_name("main")
                    .map_err(|e| format!("index: {e}"))?
                    .ok_or("no index main")?;
                let store = index.get_store(&es).map_err(|e| format!("store: {e}"))?;
                let store: &'static jbk::reader::EntryStore = Box::leak(Box::new(store));
                let slice = store
                    .get_entry_reader(jbk::EntryIdx::from(s.idx))
                    .ok_or("no such entry")?;
                let region: ByteRegion = slice.clone().into();
                let leaked: &'static ByteRegion = Box::leak(Box::new(region));
                interpret(View::Slice(slice), leaked, &s.ops);
            }
            k => return Err(format!("unknown source {k}")),
        }
        Ok(())
    });
    match r {
        Ok(Ok(())) => {}
        Ok(Err(e)) => emit(json!({"ev":"ViewError","err":e})),
        Err(p) => emit(json!({"ev":"ViewPanic","panic":p,"site":crate::out::last_panic_site()})),
    }
    emit(json!({"ev":"End","scn":s.id}));
}
