//! Concurrent readers over one opened content pack (C07). Hooked build only: the library's
//! tracer hook logs the decoder / cache linearization points (under the lock that protects the
//! state) and doubles as a seeded schedule point.
use crate::gen;
use crate::out::{catch, emit};
use jubako as jbk;
use serde::Deserialize;
use serde_json::json;
use std::io::Read;
use std::sync::atomic::{AtomicBool, AtomicU64, Ordering};
use std::sync::Arc;

#[derive(Deserialize, Clone)]
pub struct ReadOp {
    pub idx: u32,
    pub cid: u32,
    pub size: u64,
    pub cls: String,
    pub off: u64,
    pub len: u64,
    pub mode: String, // slice | stream | exact | chunks | touch
}

#[derive(Deserialize, Clone)]
pub struct Scn {
    pub id: String,
    pub file: String,
    pub seed: u64,
    #[serde(default)]
    pub delay_max_us: u64,
    #[serde(default)]
    pub trace_hooks: bool,
    /// all threads wait for each other before every read (needs op lists of one length): simultaneous first accesses
    #[serde(default)]
    pub barrier: bool,
    /// the pack is opened again (nothing cached, no decoder started) and the reads repeated this many times
    #[serde(default)]
    pub rounds: u32,
    /// "" = one std thread per reader; "rayon" = the readers are tasks on rayon's global pool (the usual par_iter
    /// extraction: the reading threads are then workers of a pool the library itself may want to use)
    #[serde(default)]
    pub pool: String,
    pub threads: Vec<Vec<ReadOp>>,
}

static SEED: AtomicU64 = AtomicU64::new(1);
static MAX_US: AtomicU64 = AtomicU64::new(0);
static LOG: AtomicBool = AtomicBool::new(false);

fn tracer(name: &'static str, id: u64, a: u64, b: u64) {
    if LOG.load(Ordering::Relaxed) {
        let th = std::thread::current().name().unwrap_or("?").to_string();
        emit(json!({"ev": name, "buf": format!("{:x}", id), "a": a, "b": b, "thread": th}));
    }
    let max = MAX_US.load(Ordering::Relaxed);
    if max == 0 {
        return;
    }
    let mut x = SEED.load(Ordering::Relaxed);
    x ^= x >> 12;
    x ^= x << 25;
    x ^= x >> 27;
    SEED.store(x, Ordering::Relaxed);
    let r = x.wrapping_mul(0x2545F4914F6CDD1D) >> 33;
    match r & 7 {
        0 | 1 | 2 => {}
        3 | 4 => std::thread::yield_now(),
        _ => std::thread::sleep(std::time::Duration::from_micros(r % (max + 1))),
    }
}

fn do_read(pack: &jbk::reader::ContentPack, op: &ReadOp) -> Result<bool, String> {
    let region = pack
        .get_content(jbk::ContentIdx::from(op.idx))
        .map_err(|e| format!("get_content: {e}"))?
        .ok_or("no such content")?;
    if op.mode == "touch" {
        // ask for the content and drop the region at once: its cluster starts decoding and nobody keeps it
        return Ok(region.size().into_u64() == op.size);
    }
    let expected = gen::content(op.cid, op.size, &op.cls);
    if region.size().into_u64() != op.size {
        return Ok(false);
    }
    let (o, l) = (op.off as usize, op.len as usize);
    let want = &expected[o..o + l];
    let got: Vec<u8> = match op.mode.as_str() {
        "slice" => region
            .get_slice(jbk::Offset::from(op.off), l)
            .map_err(|e| format!("get_slice: {e}"))?
            .to_vec(),
        "stream" => {
            let mut s = region
                .cut(jbk::Offset::from(op.off), jbk::Size::from(op.len))
                .stream();
            let mut v = Vec::with_capacity(l);
            s.read_to_end(&mut v).map_err(|e| format!("read: {e}"))?;
            v
        }
        "exact" => {
            let mut s = region.stream();
            let mut skip = vec![0u8; o];
            s.read_exact(&mut skip)
                .map_err(|e| format!("read_exact: {e}"))?;
            let mut v = vec![0u8; l];
            s.read_exact(&mut v)
                .map_err(|e| format!("read_exact: {e}"))?;
            v
        }
        _ => {
            // odd-sized reads through the stream
            let mut s = region
                .cut(jbk::Offset::from(op.off), jbk::Size::from(op.len))
                .stream();
            let mut v = Vec::with_capacity(l);
            let mut buf = [0u8; 1500];
            loop {
                let n = s.read(&mut buf).map_err(|e| format!("read: {e}"))?;
                if n == 0 {
                    break;
                }
                v.extend_from_slice(&buf[..n]);
            }
            v
        }
    };
    Ok(got == want)
}

pub fn run(s: &Scn) {
    emit(json!({"ev":"Begin","scn":s.id}));
    SEED.store(s.seed | 1, Ordering::Relaxed);
    MAX_US.store(s.delay_max_us, Ordering::Relaxed);
    LOG.store(s.trace_hooks, Ordering::Relaxed);
    jbk::verif::set_tracer(Some(tracer));
    let r = catch(|| -> Result<(), String> {
        for _round in 0..s.rounds.max(1) {
            let reader: jbk::Reader = jbk::FileSource::open(&s.file)
                .map_err(|e| e.to_string())?
                .into();
            let pack =
                Arc::new(jbk::reader::ContentPack::new(reader).map_err(|e| format!("open: {e}"))?);
            let mut handles = vec![];
            let nops = s.threads.iter().map(|o| o.len()).min().unwrap_or(0);
            let use_barrier = s.barrier && s.threads.iter().all(|o| o.len() == nops);
            let barrier = Arc::new(std::sync::Barrier::new(s.threads.len()));
            if s.pool == "rayon" {
                // (a barrier needs every task on a worker of its own: only with at most as many tasks as workers)
                let use_barrier = use_barrier && s.threads.len() <= rayon::current_num_threads();
                rayon::scope(|sc| {
                    for (t, ops) in s.threads.iter().enumerate() {
                        let pack = Arc::clone(&pack);
                        let barrier = Arc::clone(&barrier);
                        let ops = ops.clone();
                        sc.spawn(move |_| {
                            for (k, op) in ops.iter().enumerate() {
                                if use_barrier {
                                    barrier.wait();
                                }
                                let r = catch(|| do_read(&pack, op));
                                let (res, err) = match r {
                                    Ok(Ok(true)) => ("equal", String::new()),
                                    Ok(Ok(false)) => ("differs", String::new()),
                                    Ok(Err(e)) => ("err", e),
                                    Err(p) => ("panic", p),
                                };
                                emit(json!({"ev":"ReadOk","reader":t,"k":k,"idx":op.idx,"off":op.off,"len":op.len,"mode":op.mode,"res":res,"err":err}));
                            }
                        });
                    }
                });
                continue;
            }
            for (t, ops) in s.threads.iter().enumerate() {
                let pack = Arc::clone(&pack);
                let barrier = Arc::clone(&barrier);
                let ops = ops.clone();
                handles.push(
                std::thread::Builder::new()
                    .name(format!("reader{t}"))
                    .spawn(move || {
                        for (k, op) in ops.iter().enumerate() {
                            if use_barrier {
                                barrier.wait();
                            }
                            let r = catch(|| do_read(&pack, op));
                            let (res, err) = match r {
                                Ok(Ok(true)) => ("equal", String::new()),
                                Ok(Ok(false)) => ("differs", String::new()),
                                Ok(Err(e)) => ("err", e),
                                Err(p) => ("panic", p),
                            };
                            emit(json!({"ev":"ReadOk","reader":t,"k":k,"idx":op.idx,"off":op.off,"len":op.len,"mode":op.mode,"res":res,"err":err}));
                        }
                    })
                    .unwrap(),
            );
            }
            for h in handles {
                h.join().map_err(|_| "reader thread panicked".to_string())?;
            }
        }
        Ok(())
    });
    jbk::verif::set_tracer(None);
    match r {
        Ok(Ok(())) => emit(json!({"ev":"ConcDone","ok":true})),
        Ok(Err(e)) => emit(json!({"ev":"ConcDone","ok":false,"err":e})),
        Err(p) => emit(json!({"ev":"ConcDone","ok":false,"panic":p})),
    }
    emit(json!({"ev":"End","scn":s.id}));
}
