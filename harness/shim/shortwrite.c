/* LD_PRELOAD shim for the C09 check: the VERIF_SHORT_WRITE_AT-th write(2) of more than one byte to a regular file
   (counted over all threads of the process) writes only half of what it was given and reports that count - a short
   write, which POSIX allows at any time and which write_all handles by writing the rest. */
#define _GNU_SOURCE
#include <dlfcn.h>
#include <stdlib.h>
#include <sys/stat.h>
#include <sys/types.h>
#include <unistd.h>

static ssize_t (*real_write)(int, const void *, size_t);
static long counter = 0;
static long target = -2;

ssize_t write(int fd, const void *buf, size_t n) {
    if (!real_write) {
        real_write = (ssize_t(*)(int, const void *, size_t))dlsym(RTLD_NEXT, "write");
    }
    if (target == -2) {
        const char *t = getenv("VERIF_SHORT_WRITE_AT");
        target = t ? atol(t) : -1;
    }
    if (target > 0 && n > 1) {
        struct stat st;
        if (fstat(fd, &st) == 0 && S_ISREG(st.st_mode)) {
            long c = __sync_add_and_fetch(&counter, 1);
            if (c == target) {
                return real_write(fd, buf, n / 2);
            }
        }
    }
    return real_write(fd, buf, n);
}
