#!/usr/bin/env python3
"""MANIFEST.setup_cmd: build the harness (debug) offline and check the tools the checks need."""
import os
import shutil
import sys

sys.path.insert(0, os.path.join(os.path.dirname(os.path.dirname(os.path.abspath(__file__))), "tools"))
import common as C  # noqa: E402


def main():
    missing = [t for t in ("tlc", "cargo", "strace", "prlimit", "taskset", "timeout", "java") if not shutil.which(t)]
    if missing:
        print("missing tools: %s" % missing)
        return 2
    C.ensure_work()
    try:
        C.build("debug")
    except C.ToolError as e:
        print("TOOL-ERROR: %s" % e)
        return 2
    print("setup ok")
    return 0


if __name__ == "__main__":
    sys.exit(main())
