#!/usr/bin/env python3
"""Demonstrates that the specification is bound to the code (not a MANIFEST command):
  (a) for every check, one recorded field is corrupted and, separately, one event removed before
      trace validation: the check must then exit 1 (VERIF_SELFTEST, see tools/common.py);
  (b) every defect variant of the specifications (the constants that model a wrong policy) must be
      rejected by TLC;
  (c) every patch under /verif/seeded/<id>/patch.diff is applied to /repo in turn, the check of the
      property it breaks must exit 1, and the tree is restored (git checkout) straight afterwards.
usage: selftest.py [binding] [variants] [seeded] [Cxx ...]"""
import json
import os
import subprocess
import sys

ROOT = os.path.dirname(os.path.dirname(os.path.abspath(__file__)))
sys.path.insert(0, os.path.join(ROOT, "tools"))
import common as C  # noqa: E402

MODULE_OF = {"C01": "ContentPackTrace", "C16": "ContentPackTrace", "C02": "EntryStoreTrace", "C03": "EntryOrderTrace", "C15": "EntryOrderTrace",
             "C08": "ClusterPipelineTrace", "C10": "PackagingTrace", "C11": "PackagingTrace", "C12": "PackagingTrace", "C13": "ViewsTrace",
             "C04": "IntegrityTrace", "C05": "IntegrityTrace", "C06": "IntegrityTrace", "C09": "AtomicCreateTrace", "C07": "DecoderTrace", "C14": "Layout"}


def check(prop, env=None):
    e = dict(os.environ)
    if env:
        e.update(env)
    p = subprocess.run([sys.executable, os.path.join(ROOT, "bin", "check.py"), prop, "quick"], cwd=ROOT, env=e, capture_output=True, text=True)
    return p.returncode, p.stdout


def binding(props):
    ok = True
    for prop in props:
        for mode in ("flip", "drop"):
            if mode == "drop" and not C.SELFTEST_DROP.get(MODULE_OF[prop]):
                continue
            which = {"C12": ":Loc"}.get(prop, "") if mode == "drop" else ""      # C12's traces are rewrite histories: a location event is what matters there
            rc, out = check(prop, {"VERIF_SELFTEST": "%s:%s%s" % (MODULE_OF[prop], mode, which)})
            good = rc == 1 and "VIOLATION property=%s" % prop in out
            ok &= good
            print("binding %s %-5s -> rc=%d %s" % (prop, mode, rc, "rejected as expected" if good else "NOT REJECTED"), flush=True)
    return ok


def variants():
    import p_content, p_entries, p_order, p_pipeline, p_packaging, p_atomic, p_decoder
    runs = [
        ("ContentPack: tail width from data size only (F1)", "MC_ContentPack", p_content.mc_cfg(3, False, width_from_max=False, replay=False)),
        ("EntryStore: signed width from needed_bytes(max) (F2)", "MC_EntryStore", p_entries.mc_cfg("ints", 2, signed_rule="code").replace("Replay ", "")),
        ("EntryStore: reader closes a variant when its size is reached (F3)", "MC_EntryStore", p_entries.mc_cfg("variants", 3, reader_rule="size").replace("Replay ", "")),
        ("EntryOrder: entries with equal keys compare Greater (the sort loop never accepts a key written twice)", "EntryOrder",
         p_order.mc_cfg("find", KeyDomain="{0, 1, 2}", MaxSeq=3, Dups="TRUE", EqualIsGreater="TRUE").replace(" Replay", "").replace("PROPERTIES FindTerminates\n", "")),
        ("EntryOrder: columns sized before positions are reassigned", "EntryOrder", p_order.mc_cfg("refs", NEntries=4, SizeBeforeAssign="TRUE", Radix=2).replace(" Replay", "")),
        ("ClusterPipeline: tail offset not rebased", "ClusterPipeline", p_pipeline.mc_cfg(2, 4, 4, rebase=False)),
        ("ClusterPipeline: address table pushed in arrival order", "ClusterPipeline", p_pipeline.mc_cfg(2, 4, 4, index_assign=False)),
        ("Packaging: locator ignores the uuid (F5, F6)", "Packaging", p_packaging.mc_cfg("pinned")),
        ("AtomicCreate: entry point written in place", "AtomicCreate", p_atomic.mc_cfg("two", 1, True).replace("WriteInPlace = {}", 'WriteInPlace = {"entry"}')),
        ("AtomicCreate: entry point persisted first", "AtomicCreate", p_atomic.mc_cfg("none", 1, False).replace("EntryFirst = FALSE", "EntryFirst = TRUE")),
        ("Decoder: notify_one", "Decoder", p_decoder.mc_cfg(3, 3, 1, may_fail=False, notify_all=False)),
        ("Decoder: length stored without the mutex", "Decoder", p_decoder.mc_cfg(3, 3, 1, may_fail=False, locked=False)),
        ("Decoder: publish before write", "Decoder", p_decoder.mc_cfg(3, 3, 1, may_fail=False, publish_first=True)),
        ("Decoder: failure not reported to readers (F10)", "Decoder", p_decoder.mc_cfg(3, 3, 1, report=False)),
        ("PipelineFaults: a worker whose send fails does not decrement the counter (the pinned code's policy; DESIGN 11.7)", "PipelineFaults",
         p_pipeline.faults_mc_cfg(1, 4, 2, False, 1, True)),
        ("ClusterCache: the cache owns the cluster objects (eviction frees a cluster a reader still uses)", "ClusterCache", p_decoder.CACHE_CFG % "FALSE"),
    ]
    ok = True
    for i, (what, module, cfg) in enumerate(runs):
        r = C.tlc(module, cfg, "selftest_variant_%d" % i, timeout=600)
        good = not r["ok"] and r["violated"]
        ok &= bool(good)
        print("variant %-70s -> %s" % (what, "violates %s" % r["violated"] if good else "NOT VIOLATED"), flush=True)
    return ok


def seeded(only=None):
    ok = True
    sd = os.path.join(ROOT, "seeded")
    for name in sorted(os.listdir(sd)) if os.path.isdir(sd) else []:
        meta_p = os.path.join(sd, name, "meta.json")
        if not os.path.exists(meta_p):
            continue
        meta = json.load(open(meta_p))
        if only and meta["property"] not in only and name not in only:
            continue
        patch = os.path.join(sd, name, "patch.diff")
        if subprocess.run(["git", "-C", "/repo", "status", "--porcelain", "--untracked-files=no"], capture_output=True, text=True).stdout.strip():
            print("refusing: /repo has local changes")
            return False
        try:
            subprocess.run(["git", "-C", "/repo", "apply", patch], check=True)
            for prop in meta.get("caught_by", [meta["property"]]):
                rc, out = check(prop)
                good = rc == 1
                ok &= good
                print("seeded %s checked by %s -> rc=%d %s" % (name, prop, rc, "caught" if good else "MISSED"), flush=True)
        finally:
            subprocess.run(["git", "-C", "/repo", "checkout", "--", "."], check=True)
    return ok


def keeping_evidence(fn, *a):
    """the self-test runs checks that are meant to fail: the evidence files of the real checks are put back afterwards"""
    import shutil
    ev = os.path.join(ROOT, "evidence")
    bak = os.path.join(ROOT, "work", "evidence_before_selftest")
    shutil.rmtree(bak, ignore_errors=True)
    os.makedirs(os.path.dirname(bak), exist_ok=True)
    shutil.copytree(ev, bak)
    try:
        return fn(*a)
    finally:
        shutil.rmtree(ev, ignore_errors=True)
        shutil.copytree(bak, ev)


def main():
    args = sys.argv[1:]
    props = [a for a in args if a.startswith("C") and len(a) == 3] or sorted(MODULE_OF)
    what = [a for a in args if a in ("binding", "variants", "seeded")] or ["variants", "binding", "seeded"]
    ok = True
    if "variants" in what:
        ok &= variants()
    if "binding" in what:
        ok &= keeping_evidence(binding, props)
    if "seeded" in what:
        ok &= keeping_evidence(seeded, [a for a in args if a.startswith("C")] or None)
    print("SELFTEST", "OK" if ok else "FAILED")
    return 0 if ok else 1


if __name__ == "__main__":
    sys.exit(main())
