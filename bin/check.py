#!/usr/bin/env python3
"""check.py <Cxx> <quick|thorough> | check.py <Cxx> --replay <path>

Exit 0: the property held on everything explored (KNOWN-FINDING / POLICY-DRIFT lines are
informational).  Exit 1: a line `VIOLATION property=<id> replay=<path>`.  Exit 2: tool error."""
import os
import sys
import traceback

sys.path.insert(0, os.path.join(os.path.dirname(os.path.dirname(os.path.abspath(__file__))), "tools"))
import common as C  # noqa: E402

MODULES = {
    "C01": ("p_content", "run"), "C16": ("p_content", "run"),
    "C10": ("p_packaging", "run"), "C11": ("p_packaging", "run"), "C12": ("p_packaging", "run"),
    "C13": ("p_views", "run"), "C14": ("p_layout", "run"), "C07": ("p_decoder", "run"), "C09": ("p_atomic", "run"), "C04": ("p_integrity", "run"), "C05": ("p_integrity", "run"), "C06": ("p_integrity", "run"),
    "C02": ("p_entries", "run"), "C08": ("p_pipeline", "run"), "C03": ("p_order", "run"), "C15": ("p_order", "run"),
}


def main():
    if len(sys.argv) < 3:
        print(__doc__)
        return 2
    prop = sys.argv[1]
    if sys.argv[2] == "--replay":
        import json
        with open(sys.argv[3]) as f:
            print(json.dumps(json.load(f), indent=1)[:20000])
        tier = os.environ.get("VERIF_TIER", "quick")
    else:
        tier = sys.argv[2]
    if prop not in MODULES:
        print("no check for %s" % prop)
        return 2
    mod, fn = MODULES[prop]
    try:
        m = __import__(mod)
        return getattr(m, fn)(prop, tier)
    except C.ToolError as e:
        print("TOOL-ERROR: %s" % e)
        return 2
    except Exception:
        traceback.print_exc()
        print("TOOL-ERROR: internal error of the checking machinery")
        return 2


if __name__ == "__main__":
    sys.exit(main())
