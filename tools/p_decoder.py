"""C07: concurrent readers always get exactly the stored bytes.  Decoder.tla exhaustively (length
publication protocol with an explicit condition variable, safety + liveness; its defect variants
are violated); real runs of the hooked build: N reader threads over one opened pack with more
clusters than cache slots and more clusters decoding at once than pool threads, hooks as seeded
schedule points; DecoderTrace.tla validates the hook events and the bytes read."""
import json
import os
import random
import shutil
import time

import common as C

MIB = 1 << 20
TRACE_CFG = """CONSTANTS
  CacheSlots = 40
SPECIFICATION TraceSpec
INVARIANT Done
POSTCONDITION TraceAccepted
CHECK_DEADLOCK FALSE
"""


CACHE_CFG = """CONSTANTS
  Clusters = {1, 2, 3}
  Slots = 2
  Readers = {"r1", "r2"}
  MaxGets = 5
  Counted = %s
SPECIFICATION Spec
INVARIANTS Bounded CacheHoldsCurrent ReadsOwnCluster NoLeak
CHECK_DEADLOCK FALSE
"""


def mc_cfg(readers, total, maxreq, may_fail=True, notify_all=True, locked=True, publish_first=False, report=True):
    b = lambda x: "TRUE" if x else "FALSE"
    return """CONSTANTS
  Readers = {%s}
  Total = %d
  MaxReq = %d
  MayFail = %s
  NotifyAll = %s
  Locked = %s
  PublishFirst = %s
  ReportFailure = %s
SPECIFICATION FairSpec
INVARIANTS LengthsOrdered ReadsBelowWritten
PROPERTIES Served
CHECK_DEADLOCK FALSE
""" % (", ".join(str(i + 1) for i in range(readers)), total, maxreq, b(may_fail), b(notify_all), b(locked), b(publish_first), b(report))


def build_packs(binary, base, tier):
    packs = []
    # A: many small clusters (4095 tiny blobs each): more clusters than cache slots, 3-4 chunks per cluster
    nclusters = 45
    ops = [{"cid": j + 1, "size": 3 + (j % 2), "cls": "low", "hint": "yes"} for j in range(nclusters * 4095)]
    packs.append({"kind": "content", "id": "packA", "dir": os.path.join(base, "packA"), "comp": "zstd", "level": 1, "ops": ops, "read": False, "quiet_adds": True})
    # B: clusters of hundreds of chunks, more of them than pool threads
    opsb = [{"cid": 100000 + j, "size": 2 * MIB + 5000 + j, "cls": "low", "hint": "yes"} for j in range(14 if tier == "quick" else 44)]
    packs.append({"kind": "content", "id": "packB", "dir": os.path.join(base, "packB"), "comp": "lz4", "level": 0, "ops": opsb, "read": False, "quiet_adds": True})
    # C: lzma, mixed raw and compressed
    opsc = [{"cid": 200000 + j, "size": 600000 + 17 * j, "cls": "low" if j % 3 else "rand", "hint": "yes" if j % 3 else "no"} for j in range(12)]
    packs.append({"kind": "content", "id": "packC", "dir": os.path.join(base, "packC"), "comp": "lzma", "level": 0, "ops": opsc, "read": False, "quiet_adds": True})
    # D: more big clusters than cache slots: a cluster can be evicted, and dropped by everybody, while the pool still decodes it
    opsd = [{"cid": 300000 + j, "size": 2 * MIB + 100000 + j, "cls": "low", "hint": "yes"} for j in range(48 if tier == "quick" else 120)]
    packs.append({"kind": "content", "id": "packD", "dir": os.path.join(base, "packD"), "comp": "zstd", "level": 1, "ops": opsd, "read": False, "quiet_adds": True})
    runs = C.run_scenarios(binary, packs, "C07_packs", timeout=900)
    out = []
    for p in packs:
        r = runs[p["id"]]
        fin = next((e for e in r["events"] if e["ev"] == "Finalize"), None)
        if r["status"] != "ok" or not fin or not fin.get("ok"):
            raise C.ToolError("cannot create %s for C07: %s" % (p["id"], fin))
        out.append({"file": fin["file"], "ops": p["ops"], "name": p["id"]})
    return out


def make_evict(rng, k, pack, nreaders):
    """one thread asks for every content and drops it at once (decoders start, clusters are evicted while still being
    decoded and nobody holds them), the other threads read and verify contents meanwhile"""
    ops = pack["ops"]

    def rd(i, mode):
        o = ops[i]
        return {"idx": i, "cid": o["cid"], "size": o["size"], "cls": o["cls"], "off": 0, "len": o["size"] if mode != "touch" else 0, "mode": mode}
    threads = [[rd(i, "touch") for i in range(len(ops))] * 2]
    for t in range(nreaders):
        idxs = list(range(len(ops)))
        rng.shuffle(idxs)
        threads.append([rd(i, rng.choice(["stream", "slice"])) for i in idxs[:12]])
    return {"kind": "conc", "id": "q%d" % k, "file": pack["file"], "seed": rng.randrange(1, 1 << 40), "delay_max_us": 0, "trace_hooks": False,
            "threads": threads, "pack": pack["name"], "nthreads": nreaders + 1, "barrier": False, "rounds": 3}


def make_conc(rng, k, pack, nthreads, reads_per_thread, delay, trace, stampede=False, rounds=1):
    ops = pack["ops"]
    n = len(ops)
    hot = [rng.randrange(n) for _ in range(4)]          # contents every thread hits
    threads = []
    for t in range(nthreads):
        if stampede and threads:
            # every thread performs the same reads in the same order: they arrive together on each cluster that
            # has never been read (first access, or first access after eviction from the cache)
            threads.append([dict(r) for r in threads[0]])
            continue
        rs = []
        for _ in range(reads_per_thread):
            i = rng.choice(hot) if (rng.random() < 0.3 and not stampede) else rng.randrange(n)
            o = ops[i]
            size = o["size"]
            if stampede and size > 70000:
                off = rng.randrange(0, size - 65536)
                ln = rng.randrange(0, 65536)
            elif size == 0 or rng.random() < 0.4:
                off, ln = 0, size
            else:
                off = rng.randrange(0, size)
                ln = rng.randrange(0, size - off + 1)
            rs.append({"idx": i, "cid": o["cid"], "size": size, "cls": o["cls"], "off": off, "len": ln,
                       "mode": rng.choice(["slice", "stream", "exact", "chunks"])})
        threads.append(rs)
    return {"kind": "conc", "id": "q%d" % k, "file": pack["file"], "seed": rng.randrange(1, 1 << 40), "delay_max_us": delay,
            "trace_hooks": trace, "threads": threads, "pack": pack["name"], "nthreads": nthreads, "barrier": bool(stampede), "rounds": rounds}


def run(prop, tier):
    rep = C.Report(prop, tier)
    rng = random.Random(C.SEED * 2038074743 + 7)
    binary = C.build("debug", hooked=True)
    grid = [(3, 3, 1)] if tier == "quick" else [(3, 3, 1), (3, 3, 2), (2, 4, 2)]
    for counted in (True, False):
        r = C.tlc("ClusterCache", CACHE_CFG % ("TRUE" if counted else "FALSE"), "MC_ClusterCache_%s" % counted, timeout=1200)
        if counted:
            rep.add_tlc(r, "MC_ClusterCache clusters=3 slots=2 readers=2 gets<=%d (eviction while held)" % (5 if tier == "quick" else 7))
            if not r["ok"]:
                rep.violation("design: ClusterCache violates %s" % r["violated"], {"tlc": r.get("out", "")[-3000:]})
        elif r["ok"] or "ReadsOwnCluster" not in str(r["violated"]):
            raise C.ToolError("ClusterCache with Counted = FALSE should violate ReadsOwnCluster: %s" % r["violated"])
    # unbounded safety: the inductive invariant behind LengthsOrdered / ReadsBelowWritten, proved for any number of readers, chunks, requests
    pr = C.tlapm("DecoderProofs", ["Decoder"], "DecoderProofs_%s" % prop)
    rep.cov.setdefault("proofs", []).append({"module": "DecoderProofs", "theorem": "Spec => [](LengthsOrdered /\\ ReadsBelowWritten), any Readers / Total / MaxReq",
                                              "obligations_proved": pr["obligations"], "ok": pr["ok"], "seconds": pr["seconds"]})
    if not pr["ok"]:
        raise C.ToolError("tlapm did not prove DecoderProofs: %s" % pr["out"][-600:])
    for readers, total, maxreq in grid:
        r = C.tlc("Decoder", mc_cfg(readers, total, maxreq), "MC_Decoder_%d_%d_%d" % (readers, total, maxreq), timeout=3000)
        rep.add_tlc(r, "MC_Decoder readers=%d chunks=%d requests=%d (safety + liveness)" % (readers, total, maxreq))
        if not r["ok"]:
            rep.violation("design: Decoder violates %s" % r["violated"], {"tlc": r.get("out", "")[-3000:]})
        if r["uncovered"]:
            uc = [a for a in r["uncovered"] if a not in ("NotifyStep", "Block")]
            if uc:
                raise C.ToolError("Decoder: actions never taken: %s" % uc)
    C.log("[%s] design level done %.0fs" % (prop, time.time() - rep.t0))
    base = os.path.join(C.WORK, "run_%s" % prop)
    shutil.rmtree(base, ignore_errors=True)
    os.makedirs(base)
    packs = build_packs(binary, base, tier)
    C.log("[%s] packs built %.0fs" % (prop, time.time() - rep.t0))
    scns = []
    k = 0
    # traced runs (hook events validated)
    for nt in ([2, 8] if tier == "quick" else [2, 3, 8, 16]):
        for rep_ in range(2 if tier == "quick" else 6):
            k += 1
            scns.append(make_conc(rng, k, packs[0], nt, 40, rng.choice([0, 50, 300]), True))
    k += 1
    scns.append(make_conc(rng, k, packs[2], 4, 6, 100, True))
    k += 1
    scns.append(make_conc(rng, k, packs[1], 8, 14, 0, True, stampede=True))
    # stress runs (bytes + termination; hooks are schedule points only)
    nseeds = 200 if tier == "quick" else 5000
    for i in range(nseeds):
        k += 1
        pack = packs[i % 3] if i % 10 else packs[1]      # (pack D is used by the eviction runs only)
        nt = [2, 8, 16, 32][i % 4]
        rp = 30 if pack["name"] == "packA" else 3
        if i % 3 == 1:
            # simultaneous first accesses: small cluster headers (pack B), so that the threads leave the cache lock together
            scns.append(make_conc(rng, k, packs[1], [4, 8, 16][(i // 3) % 3], 14, 0, False, stampede=True, rounds=4))
        else:
            scns.append(make_conc(rng, k, pack, nt, rp, rng.choice([0, 0, 20, 200]), False))
    # the readers as tasks of rayon's global pool (what a par_iter extraction does): as many as the pool has workers, released
    # together, so that every worker of that pool is inside a read at once - whatever the library needs in order to serve
    # them must not be waiting for one of those workers
    ncpu = os.cpu_count() or 2
    for i in range(6 if tier == "quick" else 60):
        k += 1
        s_ = make_conc(rng, k, packs[1] if i % 2 == 0 else packs[i % 3], ncpu, 6, 0, False, stampede=(i % 2 == 0), rounds=2)
        s_["pool"] = "rayon"
        scns.insert(10 + 7 * i if 10 + 7 * i < len(scns) else len(scns), s_)
    for i in range(3 if tier == "quick" else 30):
        k += 1
        scns.append(make_evict(rng, k, packs[3], 4))
    events, n_ok = [], 0
    nontrivial = set()
    hangs = 0
    for i in range(0, len(scns), 30):
        if hangs >= 3:
            C.log("[%s] %d runs did not terminate: stopping early, the verdict is reached" % (prop, hangs))
            break
        chunk = scns[i:i + 30]
        runs = C.run_scenarios(binary, chunk, "C07_b%d" % i, timeout=300, max_failures=3, env_extra={"VERIF_SCN_TIMEOUT": "60"})
        # a run that did not finish is run again alone, with a generous bound, before it is called a hang
        for s in chunk:
            if runs.get(s["id"], {}).get("status") == "timeout":
                again = C.run_scenarios(binary, [s], "C07_alone", timeout=180)
                if again.get(s["id"], {}).get("status") == "ok":
                    runs[s["id"]] = again[s["id"]]
        for s in chunk:
            r = runs.get(s["id"], {"events": [], "status": "crash:notrun"})
            sid = s["id"]
            if r["status"] == "skipped":
                continue
            if r["status"] != "ok":
                hangs += (r["status"] == "timeout")
                site = next((e.get("site", "") for e in reversed(r["events"]) if e["ev"] == "PanicSite"), "")
                rep.violation("%s %s pack=%s threads=%d site=%s" % (prop, "hang (no termination within the bound)" if r["status"] == "timeout" else r["status"],
                                                                   s["pack"], s["nthreads"], site), {"scn": dict(s, threads="%d threads" % s["nthreads"]), "last": r["events"][-5:]})
                continue
            evs = [{"ev": "Run", "scn": sid}]
            for e in r["events"]:
                if e["ev"] in ("Buf", "Write", "Publish", "Fail", "WaitDone", "Slice", "BuildPlain"):
                    evs.append({"ev": e["ev"], "scn": sid, "buf": e["buf"], "a": e["a"], "b": e["b"]})
                elif e["ev"] == "CacheGet":
                    evs.append({"ev": "CacheGet", "scn": sid, "cluster": e["a"], "hit": bool(e["b"] >> 32), "size": e["b"] & 0xFFFFFFFF})
                elif e["ev"] == "ReadOk":
                    evs.append({"ev": "ReadOk", "scn": sid, "reader": e["reader"], "idx": e["idx"], "off": e["off"], "len": e["len"], "mode": e["mode"],
                                "res": e["res"], "err": e.get("err", "")[:80]})
                elif e["ev"] == "ConcDone":
                    evs.append({"ev": "ConcDone", "scn": sid, "ok": e["ok"]})
            events += evs
            n_ok += 1
            nontrivial.add((s["pack"], s["nthreads"], s["seed"]))
            if s["trace_hooks"] and len(rep.cov["samples"]) < 2:
                rep.cov["samples"].append({"pack": s["pack"], "threads": s["nthreads"], "delay_max_us": s["delay_max_us"], "trace": evs[:14]})
        C.log("[%s] %d/%d runs %.0fs" % (prop, min(i + 30, len(scns)), len(scns), time.time() - rep.t0))
    import p_entries as E
    E.validate_all(rep, prop, [dict(id=s["id"], pack=s["pack"], nthreads=s["nthreads"], seed=s["seed"]) for s in scns], events, "DecoderTrace", TRACE_CFG,
                   sigf=lambda s: "pack=%s threads=%d" % (s["pack"], s["nthreads"]))
    rep.cov["traces_validated_against_impl"] = n_ok
    rep.cov["trace_events"] = len(events)
    rep.cov["evaluations"] = len(scns)
    rep.cov["distinct_nontrivial"] = len(nontrivial)
    rep.cov["rule"] = ("runs = N in {2,8,16,32} reader threads over one opened pack: A (45 compressed clusters of 4095 blobs: more clusters than the 40 cache slots), "
                       "B (14-44 lz4 clusters of > 500 chunks: more decoding at once than the 8 pool threads), C (lzma, raw and compressed mixed); same and different contents, "
                       "whole and partial ranges, get_slice / stream / read_exact / odd-sized reads; every hook is a seeded schedule point (yield / sleep); one run in three is a stampede on pack B: all threads make the same reads, released together by a "
                       "barrier before each, over a pack opened 4 times (simultaneous first accesses to a cluster nobody has read: the decoder is created exactly once); in traced runs the "
                       "CacheGet hook is compared with the LRU model (Lru.tla); distinct = different "
                       "(pack, thread count, seed); all non-trivial (>= 2 threads)")
    rep.assumptions += ["schedules of the real code are sampled (seeded), the protocol is exhaustive in Decoder.tla", "memory errors are reached only through the protocol "
                        "invariant (readers below `published`, writer above, no reallocation); no memory-safety tool is part of this technique"]
    shutil.rmtree(base, ignore_errors=True)
    return rep.finish()
