#!/usr/bin/env python3
"""mkseeded_table.py [substring]: markdown rows of DESIGN.md section 11.5 from seeded/*/meta.json"""
import json, os, sys
root = os.path.join(os.path.dirname(os.path.dirname(os.path.abspath(__file__))), "seeded")
flt = sys.argv[1] if len(sys.argv) > 1 else ""
for d in sorted(os.listdir(root)):
    if flt and flt not in d:
        continue
    m = json.load(open(os.path.join(root, d, "meta.json")))
    print("| `%s` | %s | %s | %s | %s |" % (m["id"], m["property"], m["needs_to_manifest"].replace("|", "/"), ", ".join(m["caught_by"]), m["check_result"].replace("|", "/")))
