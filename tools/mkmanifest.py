#!/usr/bin/env python3
"""Regenerates /verif/MANIFEST.json from the table below (kept next to the checks it describes)."""
import json
import os

ROOT = os.path.dirname(os.path.dirname(os.path.abspath(__file__)))

CLAIMED = {
 "C01": dict(
  text="TLC explores every insertion sequence of <=4 (quick) / <=5 (thorough) contents over boundary size classes x hints x entropy decisions for compressing / non-compressing packs and the deduplicating adder (ContentPack.tla, 15 invariants incl. AddrResolves, AddrInjective, CountExact, BlobLimit, TailRepresentable, and the obligation that the code's placement policy is admitted by the property-level machine). Every complete behaviour becomes a run of the real creator (all codecs, levels, source kinds, both creators); the harness logs every call with its result, the independent decoder supplies the placement, and ContentPackTrace.tla (implementation constants) accepts the recorded execution only if every step is a step of the property-level machine: addresses resolve to their own content, count exact, past-count is 'none', every tail field representable.",
  note="Trusted: TLC, tools/jbkdec.py (independent decoder, for placement), the harness's byte comparison. Clusters above 16 MiB (4-byte offsets) are run in both tiers; the 4->5 byte width boundary (clusters above 4 GiB) only in the model (Radix 4).",
  technique="TLA+ spec (ContentPack.tla) model-checked with TLC + spec->code replay of TLC behaviours + code->spec trace validation (ContentPackTrace.tla)",
  design="5 C01"),
 "C16": dict(
  text="Same specification and runs as C01 with the C16 guards enabled (CheckHint): the cluster kind a content ends in must be allowed by the hint of the insertion that stored it (no / non-compressing pack => raw; yes => compressed with the pack's algorithm), identical contents through the deduplicating adder are stored once and share one address; the independent decoder additionally confirms that raw clusters hold the verbatim concatenation of their contents and compressed ones decode (third-party codec) to it (Verbatim events).",
  note="Trusted: TLC, tools/jbkdec.py and the third-party codecs behind `jbkdrive codec`. An insertion answered by the deduplicating adder with an existing address is judged by the sharing clause only (its own hint cannot also decide the kind of a cluster written earlier).",
  technique="TLA+ spec (ContentPack.tla: HintRespected, DedupShares) model-checked with TLC + trace validation of real creator runs",
  design="5 C16"),
 "C02": dict(
  text="EntryStore.tla models schema -> layout -> entry encoding / decoding and both value-store kinds over digit strings (64-bit exact). TLC enumerates every entry set (<=2/3 entries over boundary digit strings, arrays over {0,1}, prefixes 0..2, plain/indexed stores, two variants of unequal size with constant or varying columns) and checks RoundTrip, Sufficient, VariantsEqualSize, StoreResolves and LayoutReparses (the reader's variant-splitting rule reproduces the variants written). Every final state is instantiated with Radix-256 boundary values and run through the real creator and reader, together with seeded random schemas and directed boundary scenarios; EntryStoreTrace.tla accepts a recorded execution only if the layout the independent decoder found in the bytes is sufficient for every value written (any sufficient width), every read returns exactly the entry written at that final position with its variant, each index exposes exactly its window and reads past it are 'none'; every entry read is also read through the typed property builders (Property::as_builder, the custom-reader API) and must give what the generic builder gives.",
  note="Trusted: TLC, tools/jbkdec.py (decoded layout), serde_json for 64-bit values. Creation that fails is accepted only for scenarios marked unrepresentable (store tail > 64 KiB); otherwise it is a violation.",
  technique="TLA+ spec (EntryStore.tla) model-checked with TLC + spec->code replay of its final states + code->spec trace validation (EntryStoreTrace.tla)",
  design="5 C02"),
 "C03": dict(
  text="EntryOrder.tla: (order) for every set of byte strings <=3 over {00,61,ff}, every inline prefix 0..3 and both store kinds, the order the writer sorts by (inline prefix, value-store id, length) is the reader's lexicographic order; (find) the binary search of range.rs transcribed step by step is sound, complete, keeps its loop invariant, terminates (liveness under weak fairness) and agrees with the linear scan on every strictly increasing sequence <=7 over 0..8 and on every non-decreasing sequence with keys written twice (<=8 over 0..4), every window and probe; SortedIsAccepted: the acceptance test of the creator's sort loop holds on every such sequence (the variant EqualIsGreater, the pinned comparison, violates it). Initial states are replayed through the real creator/reader (sorted stores, windows, every key and absent keys looked up in both modes through RangeTrait::find with the library's comparator, each compare_entry recorded). EntryOrderTrace.tla accepts only if the store read in position order is non-decreasing in the reader's order of its sort keys, every probe lies inside the window and the result is the entry carrying the key iff one was written; the exact probe sequence is policy level (drift only).",
  note="Trusted: TLC, the harness's recording comparator (forwards to the library's PropertyCompare, answers ordered() itself because the library hard-wires false). With a key written twice the two search modes must agree on found / not found and both return an entry carrying the key (the scan the first, the bisection either).",
  technique="TLA+ spec (EntryOrder.tla, safety + liveness) model-checked with TLC + replay of its states + trace validation (EntryOrderTrace.tla)",
  design="5 C03"),
 "C15": dict(
  text="EntryOrder.tla (refs): for every reference graph on 4 entries (forward, backward, self, chains, cycles), every key order, sorted and unsorted, positions are assigned after the final sort and before columns are sized and written: RefsAreFinal, HandlesAreFinal (the variant SizeBeforeAssign=TRUE violates them, shown by the self-test). Every such state and seeded stores of 2..5000 (quick) / 70000 (thorough) entries with references in common and variant parts, in unsigned and in signed columns (lazy words of both kinds), run through the real creator; EntryOrderTrace.tla accepts only if the handles are a permutation, the entry read at Handle(i) is entry i and its reference column holds Handle(target).",
  note="Trusted: TLC; positions come from Bound::get() after finalisation, values from the public reader.",
  technique="TLA+ spec (EntryOrder.tla refs machine) model-checked with TLC + replay + trace validation (EntryOrderTrace.tla)",
  design="5 C15"),
 "C08": dict(
  text="ClusterPipeline.tla models every step of the pipeline (main dispatch with back-pressure counter, W workers taking from the spmc channel and sending buffers with tail offsets relative to the buffer, the single writer rebasing them and filling the address table by cluster id, channel closing and thread exits). TLC explores every schedule for W in 1..3, 4 clusters (5-6 in thorough) of every raw/compressed mix, MaxQueue 1 and 2W: QueueBound, WrittenOnce, NoOverlap, AddressPointsToOwnTail, AllAddressed, NothingLost, and termination under weak fairness. The real creator runs with 1, 2, 3 and 16 CPUs (1..16 in thorough; taskset: one worker on 1 and 2 CPUs through the two branches of the floor, 2 and 15 workers), 5..80 clusters, seeded delays in every Progress callback; ClusterPipelineTrace.tla checks the pipeline invariants on what was observed (callbacks + the cluster table found in the file by the independent decoder) and ContentPackTrace.tla that every address still resolves to its own bytes, counts are exact and the pack verifies. A further set of runs uses the hooked build (--cfg jubako_verif): hooks at the steps of the pipeline (dispatch with the counter under its mutex, take, done, decrement, write with the rebased tail offset, address assignment, close, exits; logged before a send and after a receive) are validated by PipelineHooksTrace.tla, every event having to be an enabled step of ClusterPipeline's state with the observed values (QueueBound exact, WrittenOnce, Rebase, NoOverlap, IndexAssign, NothingLost, exits in order), and the cluster table the independent decoder finds in the file must hold the tail offsets the writer recorded. An observation stage beyond the property (never a verdict): PipelineFaults.tla adds the failure path of the writer thread (model-checked under the code's policy and a repaired one) and PipelineFaultsTrace.tla validates the hook log of real runs in which one write is made to fail (DESIGN.md 11.7).",
  note="Real-code schedules are sampled (seeded perturbation through the Progress callbacks), the protocol is exhaustive in the model. Callback timing (Handle after NewCluster, file order = Written order) is policy level and reported as drift only.",
  technique="TLA+ spec (ClusterPipeline.tla, safety + liveness over all schedules) model-checked with TLC + trace validation of perturbed real runs (ClusterPipelineTrace.tla, ContentPackTrace.tla) and of guarded hooks at the pipeline's steps (PipelineHooksTrace.tla)",
  design="5 C08"),
 "C10": dict(
  text="Packaging.tla: packs are identities held by files (container or single), the manifest records locations, the reader resolves a pack inside the entry-point file first, then at its recorded location, identity deciding. TLC explores every packaging mode, concat of every subset of files, prefix embedding, removals / replacements / relocations (27k states) and checks SameLogicalContent, IdentityIsUuid, MissingIsReported, PresentStillReads (the pinned locator, modelled as PinnedLocate, violates them). Every configuration is produced with the real creator and tools (3 packagings, concat in every order and of every subset containing the entry point, prefixes of 1/63/64/4096 bytes in front of the entry file and in front of every pack file reached through its recorded location, stale files (truncated, empty, junk) at the recorded locations of packs that are inside the concatenated file, 0-2 extra content packs), dumped through reader::Container and compared item by item with the logical container; PackagingTrace.tla accepts only the resolutions Locate allows, an empty diff and a true check. An extra stage replays seeded end-to-end histories against the root module Jubako.tla (ReadIsLogicalOrReported: whatever the history, every pack reads as its logical content, is reported missing, or reports an error / fails the check).",
  note="Trusted: TLC, tools/jbkdec.py for which file holds which pack identity, the expected logical dump computed from the scenario alone.",
  technique="TLA+ spec (Packaging.tla) model-checked with TLC + exhaustive replay of the configuration space through the real code + trace validation (PackagingTrace.tla)",
  design="5 C10"),
 "C11": dict(
  text="Same specification as C10; configurations are containers with 3 content packs in every packaging (pack ids 1..n and sparse ids such as {1,3,9}) where each content-pack file is independently kept, removed, replaced by a directory or replaced by a different valid pack (all 4^k combinations in thorough). For each, every entry and every content is read: PackagingTrace.tla requires 'missing' with that pack's uuid and recorded location (also through get_bytes) exactly for the packs Locate cannot find by identity, 'found' with the original bytes for the others, an empty diff on everything available and a true container check.",
  note="Trusted as C10. The foreign pack is a valid content pack of another container created the same way.",
  technique="TLA+ spec (Packaging.tla) model-checked with TLC + exhaustive fault-configuration replay + trace validation (PackagingTrace.tla)",
  design="5 C11"),
 "C12": dict(
  text="Packaging.tla SetLocation + the masked manifest check of the independent decoder: sequences of 1-5 rewrites on manifests standalone and inside container files (created directly and by concat, so at several offsets), every listed pack and an unknown uuid, strings of 0/1/212/213 bytes and multi-byte UTF-8 ending at 213; and on manifests written with ManifestPackCreator over synthetic pack descriptions whose pack-info table starts beyond 64 KiB / 128 KiB (2000 packs, packs with 30 000-70 000 bytes of free data), standalone and inside a container. After each step PackagingTrace.tla requires: no byte changed outside the rewritten pack-info block, inside it only the location field and the block CRC, every CRC and the masked global hash verify (independent decoder), ManifestPack::new opens and check() is true, all other pack infos unchanged, the new location reads back through decoder and library, and - after moving the pack's file to the new location - the full dump is unchanged. An unknown uuid leaves the file byte-identical.",
  note="Trusted: TLC, tools/jbkdec.py (own CRC-32C, BLAKE3 and mask).",
  technique="TLA+ spec (Packaging.tla SetLocation) + trace validation of rewrite histories (PackagingTrace.tla) with an independent byte-level oracle",
  design="5 C12"),
 "C13": dict(
  text="Views.tla gives every public view operation (cut on regions and slices, as_slice, slice->region, stream(), From<ByteRegion> for ByteStream, read with any buffer size incl. short reads, get_slice) its denotation as a range of the content plus cursor; TLC checks Nested, Sizes, ConversionsAgree, ObsInside, ReadsTile on every behaviour over contents of length 4-6 with up to 4 views (370k states). TLC-simulated behaviours of 9 operations (nesting to depth 3+, all conversions, read partitions), plus hand-written interleavings of accesses through several views at distances of 2 and 4 units, are scaled to the real length and replayed on seven source kinds reached through the public API (in-memory pack, file region of a raw cluster, clusters decoded in the background by zstd / lz4 / lzma, reader::Container, entry bytes in a small buffer and in an mmap >= 4 KiB), none at offset 0 of its source; ViewsTrace.tla accepts a step only if the returned bytes are exactly the denoted range (located in the position-coded content) and size(), offset(), size_left() agree with it.",
  note="Trusted: TLC; the orchestrator's search of the returned bytes in the expected content. Out-of-range arguments (API misuse) are not exercised.",
  technique="TLA+ spec (Views.tla) model-checked with TLC + TLC-simulated behaviours replayed through the real API on all source kinds + trace validation (ViewsTrace.tla)",
  design="5 C13"),
 "C04": dict(
  text="Integrity.tla: a container is a set of blocks (verified by CRC or not, inside a pack's hashed range or not, with or without exempt bytes); TLC enumerates every single and double damage (1 627 damage states) and every truncation point of a representative one-file container and checks PristineVerifies, CoveredDamageDetected, ExemptIsExempt from what check() verifies. For real containers (packagings x compressions) every byte position x masks {01,80,ff} and sampled multi-byte alterations are applied to a copy, the copy is opened and every check run (Container::check, each pack's own check); IntegrityTrace.tla (Prop=C04) accepts a case only if damage on bytes a checksum covers (classified by the independent decoder's block map; the location bytes 38..256 of pack infos and their CRC are the declared exemption) makes that pack's check and the container check not 'true'; the pristine file must verify; worlds with an unavailable pack and with two content packs sharing one pack id (alternatives) are swept too. An extra stage replays seeded end-to-end histories (packaging, concat, prefix, removals, relocations, damage) against the root module Jubako.tla, whose CheckIsSound says that a container whose check is true reads back as its logical content.",
  note="Trusted: TLC, tools/jbkdec.py for the block map and the coverage classification. Quick: one mask per position; thorough: all three, all packagings x compressions.",
  technique="TLA+ spec (Integrity.tla) model-checked with TLC + exhaustive single-byte fault enumeration on real containers + trace validation (IntegrityTrace.tla)",
  design="5 C04"),
 "C05": dict(
  text="Same specification and enumeration as C04 over the whole file; each damaged copy is fully dumped (pack count, indexes, counts, every property of every entry - through the generic builder and, independently, through the typed property builders -, content addresses, content sizes, content bytes, checks) and compared item by item with the pristine dump. IntegrityTrace.tla (Prop=C05) accepts a case only if no structural item differs (identical or error) and content bytes differ only when the container check is not 'true' (StructureNeverSilentlyWrong of Integrity.tla, which derives it from the blocks every operation CRC-verifies before parsing).",
  note="Crashes are judged by C06, not here. Trusted as C04.",
  technique="TLA+ spec (Integrity.tla) model-checked with TLC + exhaustive single-byte fault enumeration with full logical dump comparison + trace validation (IntegrityTrace.tla)",
  design="5 C05"),
 "C06": dict(
  text="Integrity.tla OutcomeIsValueOrError / TruncationIsError give the guards (every cut inside its source, short reads are errors, the tail lookup needs 64 bytes, decoder errors reach the readers). Real containers of every compression and packaging are damaged at every byte position (x masks), truncated at every length, extended with garbage and replaced by non-jubako files of 0..70+ bytes; every case is opened through reader::Container and fully dumped, and the damaged file is also opened directly by every pack reader over the whole file (tools::open_pack, DirectoryPack::new, ContentPack::new, ManifestPack::new) and read through, by a case server in debug and release builds; a panic, abort, signal or timeout is data, re-run alone in a fresh process before it is attributed. IntegrityTrace.tla (Prop=C06) accepts only value / error outcomes.",
  note="Storage and transfer damage only (CRC-valid forged fields are outside the claim). Hang detection: 30 s alone for a case that normally takes < 1 ms.",
  technique="TLA+ spec (Integrity.tla) + exhaustive fault / truncation enumeration through a crash-supervised case server in both build profiles + trace validation (IntegrityTrace.tla)",
  design="5 C06"),
 "C09": dict(
  text="AtomicCreate.tla: the creator's steps (create temp in the destination directory, write, finish, rename) for the outputs of each packaging in the order BasicCreator persists them, with a crash or an I/O error possible between any two steps, with and without a previous file: DestAllOrNothing, EntryPointLast, NoPartialAtDest on all 12 configurations (the defect variants WriteInPlace / EntryFirst violate them). The real BasicCreator runs in a child process: once under strace (AtomicCreateTrace.tla rejects a destination opened for writing, truncation or creation, and an entry point renamed before the files it names), then killed (SIGXFSZ, SIGKILL) or made to fail (EFBIG, ENOSPC) at every write-size limit (quick: write boundaries +-1, thorough: every byte) at every k-th write/rename/open system call (kill) with an error returned once by every single write / rename call, and with every single write to a regular file made a short write by an LD_PRELOAD shim (both tiers); after each run every destination is classified by really opening it (independent decoder: all CRCs and hashes; library: full dump equals the logical container) and must be absent, the previous file or complete, a new entry point implying complete referenced files.",
  note="Crash = process termination, not power loss. Temporary files left behind are allowed. strace counts invocations per thread: a k can be shadowed by another thread; the write-size limit variant is per byte.",
  technique="TLA+ spec (AtomicCreate.tla) model-checked with TLC + strace-recorded file-system protocol and exhaustive crash / I/O-error injection on the real creator + trace validation (AtomicCreateTrace.tla)",
  design="5 C09"),
 "C07": dict(
  text="Decoder.tla models the length-publication protocol with an explicit condition variable (readers evaluate their predicate, block, are woken and re-evaluate), chunk writes and publications as separate steps, and a decoder that may fail at any chunk boundary. TLC checks, for 3 readers x 3 chunks (more requests and chunks in thorough), LengthsOrdered, ReadsBelowWritten and, under weak fairness, Served (every request ends with a slice or - after a decoder failure - an error); the variants notify_one, length stored without the mutex, publish-before-write and failure-not-reported are each violated. The hooked build (--cfg jubako_verif) runs N in {2,8,16,32} reader threads over one opened pack with 45 compressed clusters (> 40 cache slots) and up to 44 clusters of > 500 chunks decoding at once (> 8 pool threads), same and different contents, whole and partial ranges through get_slice / stream / read_exact; the hooks fire while the buffer's mutex is held and double as seeded schedule points. DecoderTrace.tla accepts a run only if every Write / Publish / WaitDone / Slice obeys the protocol invariants per buffer, the cache never exceeds its capacity, every read returned exactly the stored bytes and every thread terminated. ClusterCache.tla (with Lru.tla) models the cluster cache and the counted references readers hold: whatever is evicted meanwhile a reader reads the cluster it asked for from an object that still exists (ReadsOwnCluster; the variant where the cache owns the objects violates it), and the CacheGet hook (fired inside the cache mutex) is compared with the LRU model. Pack D (48 / 120 zstd clusters of 2 MiB) is read while one thread asks for every content and drops it at once, so that clusters are evicted and released while the pool still decodes them. One stress run in three is a stampede: all threads make the same reads, released together by a barrier before each, on a pack opened again four times (simultaneous first accesses to a cluster nobody has read).",
  note="Real schedules are sampled (200 seeds quick, 5000 thorough), the protocol is exhaustive in the model. 'No memory error' is covered only through the protocol invariant (readers below published, writer above, no reallocation); no sanitizer is part of this technique.",
  technique="TLA+ spec (Decoder.tla, safety + liveness with explicit condvar) model-checked with TLC + guarded hooks at linearization points + trace validation (DecoderTrace.tla) of seeded concurrent runs",
  design="5 C07"),
 "C14": dict(
  text="Layout.tla states the documented structural relations of format (0,2) over a decoded block map (header CRC and version, mirrored tail, check block at checkInfoPos, packSize = checkInfoPos + check block + 64, every block followed by a matching CRC and inside its pack, no overlap, every pointer lands on a block of the stated kind and size, data immediately before its tail, arrays of count x element, widths sufficient, locators name packs that are there; tiling without unused bytes and minimal widths are policy level). tools/jbkdec.py - own integer decoding, CRC-32C, BLAKE3, bit packing, lzma; zstd/lz4 through third-party crates only - decodes every file; TLC validates its block map against Layout.tla and the logical content it recovers (entries with variants and every value, content bytes) must equal what was written (Logical, Verbatim and Dec events; ContentPackTrace / EntryStoreTrace). Worlds: fresh containers for every compression x packaging, bare content / directory packs as C01 / C02 generate them, and a committed corpus of 8 containers (23 files) produced by the pinned version, which the current reader must read to the recorded logical content. Design level: the width lemmas of Bytes.tla, LayoutReparses of EntryStore.tla, TailRepresentable of ContentPack.tla.",
  note="Division of labour: numeric fidelity is decided by the independent decoder, structure by the specification; a symmetric writer+reader change is caught by the decoder and the corpus, never by round-trip. Corpus container packs declare their size 5 bytes short (pinned-version trait): accepted for corpus files only.",
  technique="explicit layout relations (Layout.tla) validated with TLC on block maps produced by an independent decoder + reference corpus of the pinned version + design-level lemmas model-checked with TLC",
  design="5 C14"),
}

REASON_TODO = "check not built yet (work in progress; see DESIGN.md section 9 for the order of work)"


def main():
    ids = [json.loads(l)["id"] for l in open(os.path.join(ROOT, "properties.jsonl"))]
    checks = []
    for i in ids:
        if i not in CLAIMED:
            continue
        c = CLAIMED[i]
        checks.append({
            "property_id": i,
            "quick_cmd": "python3 bin/check.py %s quick" % i,
            "thorough_cmd": "python3 bin/check.py %s thorough" % i,
            "evidence_file": "/verif/evidence/%s.json" % i,
            "replay_cmd_template": "python3 bin/check.py %s --replay {path}" % i,
            "engine": "tlc+jbkdrive",
            "level_claimed": {"category": "model_checking", "text": c["text"], "design_ref": "DESIGN.md section " + c["design"]},
            "level_note": c["note"],
            "technique": c["technique"],
        })
    m = {
        "version": 1,
        "setup_cmd": "python3 bin/setup.py",
        "hooks": {
            "guard": "jubako_verif",
            "enable": "RUSTFLAGS='--cfg jubako_verif' (set by tools/common.py build(hooked=True); target dir harness/target-hooked)",
            "baseline_off_cmd": "cd /repo && cargo test --workspace --no-fail-fast --offline",
            "source_commits": ["8da2a12", "bd60c31"],
            "add_only": True,
        },
        "engines": [
            {"name": "tlc+jbkdrive", "path": "/verif/bin/check.py", "serves_properties": sorted(CLAIMED),
             "kind_free_text": "TLA+ specifications in spec/ checked with TLC (exhaustive configurations and trace validation); Rust conformance harness harness/ (path dependency on /repo); independent decoder tools/jbkdec.py"},
        ],
        "checks": checks,
        "notes": "Every check rebuilds the harness from /repo's working tree. Exit 0 held / 1 VIOLATION line / 2 tool error. See DESIGN.md.",
        "not_applicable": [{"property_id": i, "reason": REASON_TODO} for i in ids if i not in CLAIMED],
    }
    with open(os.path.join(ROOT, "MANIFEST.json"), "w") as f:
        json.dump(m, f, indent=1)


if __name__ == "__main__":
    main()
