#!/usr/bin/env python3
"""keep_mutant.py <worktree> <id> <property> <caught_by,comma> <needs text> <result text>: copy a confirmed seeded change into /verif/seeded/<id>/"""
import json, os, shutil, sys
wt, mid, prop, caught, needs, result = sys.argv[1:7]
d = os.path.join(os.path.dirname(os.path.dirname(os.path.abspath(__file__))), "seeded", mid)
os.makedirs(d, exist_ok=True)
shutil.copy(os.path.join(wt, "MUTANT", "patch.diff"), os.path.join(d, "patch.diff"))
for fn in os.listdir(os.path.join(wt, "MUTANT")):
    if fn not in ("patch.diff",):
        shutil.copy(os.path.join(wt, "MUTANT", fn), os.path.join(d, fn))
meta = {"id": mid, "property": prop, "caught_by": [c for c in caught.split(",") if c], "needs_to_manifest": needs,
        "origin": "written by a sub-agent given only the property text and a scratch worktree",
        "confirmed": "tools/confirm_mutant.sh: patch applies to the clean tree; with it the crate builds and the repository's tests pass (125 + 2) and the demonstration fails; without it the demonstration passes",
        "check_result": result}
json.dump(meta, open(os.path.join(d, "meta.json"), "w"), indent=1)
print("kept", d)
