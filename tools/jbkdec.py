"""Independent decoder of the Jubako on-disk format (0,2) as implemented at the pinned commit.

Shares no code with the library: own little-endian parsing, CRC-32C, BLAKE3 (tools/b3.py),
`lzma` from the standard library; zstd / lz4 payloads and BLAKE3 of large ranges go through
`jbkdrive codec`, which links only the third-party codec crates.

decode_file(path) -> dict with
  packs      : list of decoded packs (recursively for container packs), each with a block map
  violations : list of LayoutViolation records (rule, detail, pack, pos)   -> findings
  drift      : policy-level departures (unused bytes, non-minimal widths)  -> information only
Internal errors of this decoder raise ordinary exceptions (tool error), never LayoutViolation.
"""
import json
import lzma
import os
import struct
import subprocess
import sys
import tempfile
import uuid as _uuid

sys.path.insert(0, os.path.dirname(os.path.abspath(__file__)))
import b3  # noqa: E402

_CODEC_DEFAULT = os.path.join(os.path.dirname(os.path.dirname(os.path.abspath(__file__))), "harness", "target", "debug", "jbkdrive")


def codec():
    return os.environ.get("VERIF_CODEC", _CODEC_DEFAULT)
WORK = os.environ.get("VERIF_WORK", "/verif/work")
BIG = 256 * 1024


class LayoutViolation(Exception):
    def __init__(self, rule, detail, pos=None):
        Exception.__init__(self, "%s: %s" % (rule, detail))
        self.rule, self.detail, self.pos = rule, detail, pos


def u(b):
    return int.from_bytes(b, "little")


def s_int(b):
    return int.from_bytes(b, "little", signed=True)


def needed_bytes(v):
    n = 0
    while v > 0:
        v >>= 8
        n += 1
    return max(n, 1)


def blake3_of(data):
    if len(data) >= BIG and os.path.exists(codec()):
        fd, p = tempfile.mkstemp(dir=WORK, prefix="b3in")
        try:
            os.write(fd, data)
            os.close(fd)
            out = subprocess.run([codec(), "codec", "blake3", p], capture_output=True, check=True)
            return bytes.fromhex(out.stdout.decode().strip())
        finally:
            os.unlink(p)
    return b3.blake3(data)


def decompress(kind, raw):
    """kind: 1 lz4 (frame), 2 lzma-alone, 3 zstd"""
    if kind == 2:
        try:
            d = lzma.LZMADecompressor(format=lzma.FORMAT_ALONE)
            return d.decompress(raw)
        except lzma.LZMAError as e:
            raise LayoutViolation("undecodable-stream", "lzma: %s" % e)
    name = {1: "lz4", 3: "zstd"}[kind]
    fd, pin = tempfile.mkstemp(dir=WORK, prefix="cin")
    pout = pin + ".out"
    try:
        os.write(fd, raw)
        os.close(fd)
        r = subprocess.run([codec(), "codec", name, pin, pout], capture_output=True)
        if r.returncode == 3:
            raise LayoutViolation("undecodable-stream", "%s: %s" % (name, r.stderr.decode().strip()))
        if r.returncode != 0:
            raise RuntimeError("codec helper failed: %s" % r.stderr.decode())
        with open(pout, "rb") as f:
            return f.read()
    finally:
        for p in (pin, pout):
            if os.path.exists(p):
                os.unlink(p)


class Cur:
    def __init__(self, data, pos=0):
        self.d, self.p = data, pos

    def take(self, n):
        if self.p + n > len(self.d):
            raise LayoutViolation("short-block", "need %d bytes at %d of %d" % (n, self.p, len(self.d)))
        b = self.d[self.p:self.p + n]
        self.p += n
        return b

    def u8(self):
        return self.take(1)[0]

    def un(self, n):
        return u(self.take(n))

    def pstr(self):
        n = self.u8()
        return self.take(n)

    def left(self):
        return len(self.d) - self.p


class Pack:
    """One pack inside `data` (the whole file) at [base, base+size)."""

    def __init__(self, data, base, out):
        self.data, self.base, self.out = data, base, out
        self.blocks = []
        self.viol = out["violations"]
        self.drift = out["drift"]

    def v(self, rule, detail, pos=None):
        self.viol.append({"rule": rule, "detail": detail, "pos": pos, "pack": self.info.get("uuid") if hasattr(self, "info") else None})

    def block(self, kind, off, size, check=True, **extra):
        """A block of `size` payload bytes at pack offset `off`, followed by a 4-byte CRC.
        Returns the payload; records the block; CRC mismatch is a violation."""
        a = self.base + off
        if off < 0 or a + size + (4 if check else 0) > self.base + self.size:
            raise LayoutViolation("pointer-outside-pack", "%s block [%d,+%d) in pack of %d" % (kind, off, size, self.size), a)
        payload = self.data[a:a + size]
        rec = {"kind": kind, "begin": a, "end": a + size + (4 if check else 0), "size": size, "crc": None}
        rec.update(extra)
        if check:
            stored = int.from_bytes(self.data[a + size:a + size + 4], "big")
            ok = b3.crc32c_jbk(payload) == stored
            rec["crc"] = ok
            if not ok:
                self.v("crc-mismatch", "%s block at %d" % (kind, a), a)
        self.blocks.append(rec)
        return payload

    def raw(self, kind, off, size, **extra):
        return self.block(kind, off, size, check=False, **extra)


def parse_header(hdr):
    if hdr[:3] != b"jbk":
        raise LayoutViolation("bad-magic", repr(hdr[:4]))
    kind = chr(hdr[3])
    if kind not in "mdcC":
        raise LayoutViolation("bad-kind", repr(hdr[3:4]))
    return {
        "kind": kind,
        "vendor": list(hdr[4:8]),
        "major": hdr[8], "minor": hdr[9],
        "uuid": str(_uuid.UUID(bytes=bytes(hdr[10:26]))),
        "flags": hdr[26],
        "pad1": hdr[27:32].hex(),
        "packSize": u(hdr[32:40]),
        "checkInfoPos": u(hdr[40:48]),
        "pad2": hdr[48:60].hex(),
    }


def decode_pack(data, base, avail, out, depth=0):
    """Decode the pack starting at data[base]; `avail` bytes are available for it."""
    p = Pack(data, base, out)
    if avail < 64:
        raise LayoutViolation("short-pack", "only %d bytes at %d" % (avail, base), base)
    p.size = avail
    hdr = p.block("PackHeader", 0, 60)
    info = parse_header(hdr)
    p.info = info
    info["offset"] = base
    if (info["major"], info["minor"]) != (0, 2):
        p.v("version", "%d.%d" % (info["major"], info["minor"]), base)
    if info["pad1"].strip("0") or info["pad2"].strip("0"):
        p.v("header-padding", "reserved bytes not zero", base)
    size = info["packSize"]
    if size > avail:
        raise LayoutViolation("pack-size-exceeds-space", "%d > %d" % (size, avail), base)
    p.size = size
    cip = info["checkInfoPos"]
    # check block
    ckind = data[base + cip] if cip < size else None
    if ckind == 1:
        cb = p.block("Check", cip, 33)
        info["checkKind"] = "blake3"
        csz = 37
    elif ckind == 0:
        cb = p.block("Check", cip, 1)
        info["checkKind"] = "none"
        csz = 5
    else:
        raise LayoutViolation("bad-check-kind", repr(ckind), base + cip)
    # tail
    declared_end = cip + csz + 64
    info["sizeRelation"] = (size == declared_end)
    if size != declared_end:
        # container packs of the pinned version omit their 5-byte check block (finding F12)
        p.v("pack-size-relation", "packSize %d != checkInfoPos %d + check %d + 64 (kind %s)" % (size, cip, csz, info["kind"]), base)
    tail_at = cip + csz
    if base + tail_at + 64 <= len(data):
        tail = data[base + tail_at:base + tail_at + 64]
        p.blocks.append({"kind": "PackTail", "begin": base + tail_at, "end": base + tail_at + 64, "size": 64, "crc": None})
        info["tailMirror"] = (bytes(reversed(tail)) == data[base:base + 64])
        if not info["tailMirror"]:
            p.v("tail-mirror", "last 64 bytes are not the reversed header", base + tail_at)
    else:
        info["tailMirror"] = False
        p.v("tail-mirror", "tail outside file", base + tail_at)
    info["physEnd"] = base + tail_at + 64
    # pack-kind specific
    k = info["kind"]
    if k == "c":
        decode_content(p, info)
    elif k == "d":
        decode_directory(p, info)
    elif k == "m":
        decode_manifest(p, info)
    elif k == "C":
        decode_container(p, info, out, depth)
    # global check
    if info["checkKind"] == "blake3" and not out.get("check_hash", True):
        info["checkOk"] = None
    elif info["checkKind"] == "blake3":
        rng = bytearray(data[base:base + cip])
        if k == "m":
            for pi in info["packInfos"]:
                o = pi["_pos"] - base
                for i in range(o + 38, o + 256):
                    rng[i] = 0
        info["checkOk"] = (blake3_of(bytes(rng)) == cb[1:33])
        if not info["checkOk"]:
            p.v("check-hash", "blake3 over [0,%d) does not match the check block" % cip, base + cip)
    else:
        info["checkOk"] = True
    # tiling (policy level: no unused byte, no overlap)
    own = sorted([b for b in p.blocks if not b.get("nested")], key=lambda b: (b["begin"], b["end"]))
    pos = base
    gaps, overlaps = [], []
    for b in own:
        if b["begin"] > pos:
            gaps.append([pos, b["begin"]])
        elif b["begin"] < pos:
            overlaps.append([b["begin"], pos, b["kind"]])
        pos = max(pos, b["end"])
    if pos < info["physEnd"]:
        gaps.append([pos, info["physEnd"]])
    info["gaps"], info["overlaps"] = gaps, overlaps
    if overlaps:
        p.v("blocks-overlap", json.dumps(overlaps[:5]), overlaps[0][0])
    if gaps:
        out["drift"].append({"rule": "tiling-gap", "pack": info["uuid"], "gaps": gaps[:5]})
    info["blocks"] = p.blocks
    return info


def sized_offset(b):
    v = u(b)
    return {"size": v & 0xFFFF, "offset": v >> 16}


# ---------------------------------------------------------------- content pack
def decode_content(p, info):
    h = p.block("ContentPackHeader", 64, 60)
    info["contentPtrPos"] = u(h[0:8])
    info["clusterPtrPos"] = u(h[8:16])
    info["contentCount"] = u(h[16:20])
    info["clusterCount"] = u(h[20:24])
    if h[24:36].strip(b"\0"):
        p.v("header-padding", "content header reserved bytes not zero")
    info["freeData"] = h[36:60].hex()
    cptr = p.block("ClusterPtrArray", info["clusterPtrPos"], 8 * info["clusterCount"])
    iptr = p.block("ContentInfoArray", info["contentPtrPos"], 4 * info["contentCount"])
    if info["contentPtrPos"] + 4 * info["contentCount"] + 4 != info["checkInfoPos"]:
        p.drift.append({"rule": "content-infos-not-before-check", "pack": info["uuid"]})
    clusters = []
    for cid in range(info["clusterCount"]):
        so = sized_offset(cptr[8 * cid:8 * cid + 8])
        c = {"id": cid, "tailPos": so["offset"], "tailSize": so["size"]}
        try:
            t = Cur(p.block("ClusterTail", so["offset"], so["size"], cluster=cid))
            c["comp"] = t.u8()
            c["offWidth"] = t.u8()
            c["blobs"] = t.un(2)
            if c["comp"] not in (0, 1, 2, 3):
                raise LayoutViolation("bad-compression", str(c["comp"]))
            if not 1 <= c["offWidth"] <= 8:
                raise LayoutViolation("bad-width", str(c["offWidth"]))
            w = c["offWidth"]
            c["rawSize"] = t.un(w)
            c["dataSize"] = t.un(w)
            ends = [t.un(w) for _ in range(max(c["blobs"] - 1, 0))] + [c["dataSize"]]
            if t.left() != 0:
                raise LayoutViolation("tail-size", "cluster %d tail has %d unused bytes" % (cid, t.left()))
            starts = [0] + ends[:-1]
            c["blobSizes"] = [e - s for s, e in zip(starts, ends)]
            c["offsets"] = starts
            if any(x < 0 for x in c["blobSizes"]):
                raise LayoutViolation("offsets-not-monotone", "cluster %d" % cid)
            if c["blobs"] == 0:
                p.v("empty-cluster", "cluster %d has no blob" % cid)
            c["dataPos"] = so["offset"] - c["rawSize"]
            if c["dataPos"] < 128:
                raise LayoutViolation("pointer-outside-pack", "cluster %d data begins at %d" % (cid, c["dataPos"]))
            p.raw("ClusterData", c["dataPos"], c["rawSize"], cluster=cid)
            if c["comp"] == 0 and c["rawSize"] != c["dataSize"]:
                p.v("raw-size", "uncompressed cluster %d raw %d != data %d" % (cid, c["rawSize"], c["dataSize"]))
            c["widthMinimal"] = (w == needed_bytes(max(c["rawSize"], c["dataSize"])))
            c["ok"] = True
        except LayoutViolation as e:
            p.v(e.rule, "cluster %d: %s" % (cid, e.detail), e.pos)
            c["ok"] = False
        clusters.append(c)
    infos = []
    for i in range(info["contentCount"]):
        v = u(iptr[4 * i:4 * i + 4])
        infos.append([v >> 12, v & 0xFFF])
    for i, (cl, bl) in enumerate(infos):
        if cl >= len(clusters):
            p.v("info-cluster-range", "content %d names cluster %d of %d" % (i, cl, len(clusters)))
        elif clusters[cl]["ok"] and bl >= clusters[cl]["blobs"]:
            p.v("info-blob-range", "content %d names blob %d of %d in cluster %d" % (i, bl, clusters[cl]["blobs"], cl))
    info["clusters"], info["infos"] = clusters, infos
    info["_p"] = p


def cluster_plain(info, cid, cache):
    """Decoded bytes of a cluster (independent decode)."""
    if cid in cache:
        return cache[cid]
    c = info["clusters"][cid]
    p = info["_p"]
    raw = p.data[p.base + c["dataPos"]:p.base + c["dataPos"] + c["rawSize"]]
    if c["comp"] == 0:
        plain = bytes(raw)
    else:
        plain = decompress(c["comp"], bytes(raw))
        if len(plain) < c["dataSize"]:
            raise LayoutViolation("short-stream", "cluster %d decodes to %d < %d" % (cid, len(plain), c["dataSize"]))
        plain = plain[:c["dataSize"]]
    cache.clear()  # keep one cluster at a time (memory)
    cache[cid] = plain
    return plain


def content_bytes(info, i, cache):
    cl, bl = info["infos"][i]
    c = info["clusters"][cl]
    plain = cluster_plain(info, cl, cache)
    o = c["offsets"][bl]
    return plain[o:o + c["blobSizes"][bl]]


# ---------------------------------------------------------------- directory pack
def parse_keyinfos(t, count):
    props = []
    for _ in range(count):
        b = t.u8()
        typ, dat = b & 0xF0, b & 0x0F
        if typ == 0x00:
            props.append({"kind": "pad", "size": dat + 1, "name": ""})
            continue
        if typ == 0x10:
            pw = ((dat & 4) >> 2) + 1
            cw = (dat & 3) + 1
            d = None
            if dat & 8:
                d = t.un(pw)
            pr = {"kind": "content", "packWidth": pw, "idWidth": cw, "default": d,
                  "size": cw + (0 if d is not None else pw)}
        elif typ in (0x20, 0x30):
            w = (dat & 7) + 1
            d = None
            if dat & 8:
                raw = t.take(w)
                d = u(raw) if typ == 0x20 else s_int(raw)
            pr = {"kind": "uint" if typ == 0x20 else "sint", "width": w, "default": d,
                  "size": 0 if d is not None else w}
        elif typ == 0x50:
            lw = dat & 3
            comp = t.u8()
            fixed = comp & 0x1F
            kw = comp >> 5
            store = t.u8() if kw else None
            d = None
            if dat & 8:
                if lw == 0:
                    raise LayoutViolation("array-default-without-length", "")
                ln = t.un(lw)
                pre = t.take(fixed)
                vid = t.un(kw) if kw else None
                d = {"len": ln, "prefix": list(pre), "id": vid}
            pr = {"kind": "array", "lenWidth": lw, "prefix": fixed, "idWidth": kw, "store": store,
                  "default": d, "size": 0 if d is not None else lw + fixed + kw}
        elif typ == 0x80:
            pr = {"kind": "variantid", "size": 1}
        elif typ in (0xA0, 0xB0):
            w = (dat & 7) + 1
            kw = (t.u8() & 7) + 1
            store = t.u8()
            d = None
            if dat & 8:
                d = t.un(kw)
            pr = {"kind": "duint" if typ == 0xA0 else "dsint", "width": w, "idWidth": kw, "store": store,
                  "default": d, "size": 0 if d is not None else kw}
        else:
            raise LayoutViolation("unknown-key-type", hex(b))
        pr["name"] = t.pstr().decode("utf-8", "replace")
        props.append(pr)
    return props


def decode_directory(p, info):
    h = p.block("DirectoryPackHeader", 64, 60)
    info["indexPtrPos"] = u(h[0:8])
    info["entryStorePtrPos"] = u(h[8:16])
    info["valueStorePtrPos"] = u(h[16:24])
    info["indexCount"] = u(h[24:28])
    info["entryStoreCount"] = u(h[28:32])
    info["valueStoreCount"] = h[32]
    if h[33:36].strip(b"\0"):
        p.v("header-padding", "directory header reserved bytes not zero")
    info["freeData"] = h[36:60].hex()
    ip = p.block("IndexPtrArray", info["indexPtrPos"], 8 * info["indexCount"])
    vp = p.block("ValueStorePtrArray", info["valueStorePtrPos"], 8 * info["valueStoreCount"])
    ep = p.block("EntryStorePtrArray", info["entryStorePtrPos"], 8 * info["entryStoreCount"])
    # value stores first (entries refer to them)
    vstores = []
    for i in range(info["valueStoreCount"]):
        so = sized_offset(vp[8 * i:8 * i + 8])
        vstores.append(decode_value_store(p, so, i))
    info["valueStores"] = vstores
    estores = []
    for i in range(info["entryStoreCount"]):
        so = sized_offset(ep[8 * i:8 * i + 8])
        estores.append(decode_entry_store(p, so, i, vstores))
    info["entryStores"] = estores
    indexes = []
    for i in range(info["indexCount"]):
        so = sized_offset(ip[8 * i:8 * i + 8])
        try:
            t = Cur(p.block("Index", so["offset"], so["size"], index=i))
            ix = {"store": t.un(4), "count": t.un(4), "offset": t.un(4), "freeData": t.take(4).hex(),
                  "indexKey": t.u8()}
            ix["name"] = t.pstr().decode("utf-8", "replace")
            if t.left():
                raise LayoutViolation("tail-size", "index %d has %d unused bytes" % (i, t.left()))
            if ix["store"] >= len(estores):
                p.v("index-store-range", "index %d names store %d" % (i, ix["store"]))
            elif estores[ix["store"]].get("ok") and ix["offset"] + ix["count"] > estores[ix["store"]]["count"]:
                p.v("index-window-range", "index %d window [%d,+%d) in store of %d" % (i, ix["offset"], ix["count"], estores[ix["store"]]["count"]))
        except LayoutViolation as e:
            p.v(e.rule, "index %d: %s" % (i, e.detail), e.pos)
            ix = {"ok": False}
        indexes.append(ix)
    info["indexes"] = indexes


def decode_value_store(p, so, i):
    vs = {"id": i, "tailPos": so["offset"], "tailSize": so["size"]}
    try:
        t = Cur(p.block("ValueStoreTail", so["offset"], so["size"], vstore=i))
        kind = t.u8()
        if kind == 0:
            vs["kind"] = "plain"
            vs["dataSize"] = t.un(8)
            ends = None
        elif kind == 1:
            vs["kind"] = "indexed"
            vs["count"] = t.un(8)
            w = t.u8()
            if not 1 <= w <= 8:
                raise LayoutViolation("bad-width", str(w))
            vs["offWidth"] = w
            vs["dataSize"] = t.un(w)
            ends = [t.un(w) for _ in range(max(vs["count"] - 1, 0))]
            if vs["count"] > 0:
                ends.append(vs["dataSize"])
            vs["widthMinimal"] = (w == needed_bytes(vs["dataSize"]))
        else:
            raise LayoutViolation("bad-value-store-kind", str(kind))
        if t.left():
            raise LayoutViolation("tail-size", "value store %d tail has %d unused bytes" % (i, t.left()))
        dpos = so["offset"] - vs["dataSize"] - 4
        data = p.block("ValueStoreData", dpos, vs["dataSize"], vstore=i)
        vs["_data"] = bytes(data)
        if ends is not None:
            starts = [0] + ends[:-1]
            if any(e < s for s, e in zip(starts, ends)) or (ends and ends[-1] != vs["dataSize"]):
                raise LayoutViolation("offsets-not-monotone", "value store %d" % i)
            vs["_values"] = [bytes(data[s:e]) for s, e in zip(starts, ends)]
        vs["ok"] = True
    except LayoutViolation as e:
        p.v(e.rule, "value store %d: %s" % (i, e.detail), e.pos)
        vs["ok"] = False
    return vs


def store_bytes(vstores, store, vid, n):
    """bytes of value `vid` of value store `store`; n = number of bytes wanted (None = whole value)"""
    if store is None or store >= len(vstores) or not vstores[store].get("ok"):
        raise LayoutViolation("value-store-range", "store %r" % store)
    vs = vstores[store]
    if vs["kind"] == "plain":
        if n is None:
            raise LayoutViolation("plain-store-needs-length", "")
        if vid + n > vs["dataSize"]:
            raise LayoutViolation("value-id-range", "plain id %d + %d > %d" % (vid, n, vs["dataSize"]))
        return vs["_data"][vid:vid + n]
    if vid >= vs["count"]:
        raise LayoutViolation("value-id-range", "indexed id %d of %d" % (vid, vs["count"]))
    val = vs["_values"][vid]
    if n is not None:
        if n > len(val):
            raise LayoutViolation("value-length", "want %d of value of %d" % (n, len(val)))
        val = val[:n]
    return val


def decode_props(props, raw, pos, vstores, outv, fields):
    for pr in props:
        k = pr["kind"]
        chunk = raw[pos:pos + pr["size"]]
        if len(chunk) != pr["size"]:
            raise LayoutViolation("entry-size", "property %s crosses the entry end" % pr.get("name"))
        c = Cur(chunk)
        if k == "pad":
            fields.append(["pad", pr["size"], list(chunk)])
        elif k == "content":
            pk = pr["default"] if pr["default"] is not None else c.un(pr["packWidth"])
            ci = c.un(pr["idWidth"])
            outv[pr["name"]] = {"t": "c", "pack": pk, "idx": ci}
            fields.append(["content", pr["name"], pk, ci])
        elif k in ("uint", "sint"):
            if pr["default"] is not None:
                val = pr["default"]
            else:
                b = c.take(pr["width"])
                val = u(b) if k == "uint" else s_int(b)
            outv[pr["name"]] = {"t": "u" if k == "uint" else "s", "v": val}
            fields.append([k, pr["name"], val])
        elif k == "array":
            if pr["default"] is not None:
                ln, pre, vid = pr["default"]["len"], bytes(pr["default"]["prefix"]), pr["default"]["id"]
            else:
                ln = c.un(pr["lenWidth"]) if pr["lenWidth"] else None
                pre = c.take(pr["prefix"])
                vid = c.un(pr["idWidth"]) if pr["idWidth"] else None
            if ln is not None:
                head = pre[:min(ln, len(pre))]
                rest = ln - len(head)
                if rest > 0:
                    if vid is None:
                        raise LayoutViolation("array-without-store", pr["name"])
                    tail = store_bytes(vstores, pr["store"], vid, rest)
                else:
                    tail = b""
                val = bytes(head) + bytes(tail)
            else:
                if vid is None:
                    val = bytes(pre)
                else:
                    val = bytes(pre) + bytes(store_bytes(vstores, pr["store"], vid, None))
            outv[pr["name"]] = {"t": "a", "v": list(val)}
            fields.append(["array", pr["name"], ln, list(pre), vid])
        elif k in ("duint", "dsint"):
            vid = pr["default"] if pr["default"] is not None else c.un(pr["idWidth"])
            b = store_bytes(vstores, pr["store"], vid * pr["width"], pr["width"])
            val = u(b) if k == "duint" else s_int(b)
            outv[pr["name"]] = {"t": "u" if k == "duint" else "s", "v": val}
            fields.append([k, pr["name"], vid, val])
        elif k == "variantid":
            raise LayoutViolation("variant-id-in-part", "")
        pos += pr["size"]
    return pos


def decode_entry_store(p, so, i, vstores):
    es = {"id": i, "tailPos": so["offset"], "tailSize": so["size"]}
    try:
        t = Cur(p.block("EntryStoreTail", so["offset"], so["size"], estore=i))
        kind = t.u8()
        if kind != 0:
            raise LayoutViolation("bad-entry-store-kind", str(kind))
        es["count"] = t.un(4)
        es["flag"] = t.u8()
        es["entrySize"] = t.un(2)
        es["variantCount"] = t.u8()
        es["keyCount"] = t.u8()
        props = parse_keyinfos(t, es["keyCount"])
        if t.left():
            raise LayoutViolation("tail-size", "entry store %d tail has %d unused bytes" % (i, t.left()))
        # split: common part, then one list per VariantId marker (documented structure)
        common, variants, names = [], [], []
        cur = common
        for pr in props:
            if pr["kind"] == "variantid":
                cur = []
                variants.append(cur)
                names.append(pr["name"])
            else:
                cur.append(pr)
        es["common"], es["variants"], es["variantNames"] = common, variants, names
        if len(variants) != es["variantCount"]:
            raise LayoutViolation("variant-count", "declared %d, defined %d" % (es["variantCount"], len(variants)))
        csize = sum(x["size"] for x in common)
        if variants:
            vsizes = [sum(x["size"] for x in v) for v in variants]
            es["variantSizes"] = vsizes
            if len(set(vsizes)) != 1:
                raise LayoutViolation("variants-unequal", str(vsizes))
            total = csize + 1 + vsizes[0]
        else:
            total = csize
        if total != es["entrySize"]:
            raise LayoutViolation("entry-size", "declared %d, properties sum to %d" % (es["entrySize"], total))
        if es["flag"] & 1:
            raise LayoutViolation("unsupported", "per-entry crc")
        dsize = es["count"] * es["entrySize"]
        data = p.block("EntryStoreData", so["offset"] - dsize - 4, dsize, estore=i)
        entries, raws = [], []
        for n in range(es["count"]):
            raw = data[n * es["entrySize"]:(n + 1) * es["entrySize"]]
            vals, fields = {}, []
            pos = decode_props(common, raw, 0, vstores, vals, fields)
            var = None
            if variants:
                var = raw[pos]
                fields.append(["variantid", var])
                pos += 1
                if var >= len(variants):
                    raise LayoutViolation("variant-id-range", "entry %d variant %d" % (n, var))
                pos = decode_props(variants[var], raw, pos, vstores, vals, fields)
            if pos != es["entrySize"]:
                raise LayoutViolation("entry-size", "entry %d decoded %d of %d" % (n, pos, es["entrySize"]))
            entries.append({"variant": var, "values": vals})
            raws.append(fields)
        es["_entries"], es["_raw"] = entries, raws
        es["ok"] = True
    except LayoutViolation as e:
        p.v(e.rule, "entry store %d: %s" % (i, e.detail), e.pos)
        es["ok"] = False
    return es


# ---------------------------------------------------------------- manifest pack
def decode_manifest(p, info):
    h = p.block("ManifestPackHeader", 64, 60)
    info["packCount"] = u(h[0:2])
    vso = sized_offset(h[2:10])
    if h[10:36].strip(b"\0"):
        p.v("header-padding", "manifest header reserved bytes not zero")
    info["freeData"] = h[36:60].hex()
    n = info["packCount"]
    start = info["checkInfoPos"] - 256 * n
    pis = []
    for i in range(n):
        o = start + 256 * i
        b = p.block("PackInfo", o, 252, packinfo=i)
        t = Cur(b)
        pi = {"uuid": str(_uuid.UUID(bytes=bytes(t.take(16)))), "packSize": t.un(8)}
        pi["checkInfo"] = sized_offset(t.take(8))
        pi["packId"] = t.un(2)
        pi["kind"] = chr(t.u8())
        pi["group"] = t.u8()
        pi["freeDataId"] = t.un(2)
        ln = t.u8()
        loc = t.take(213)
        if ln > 213:
            p.v("location-length", "pack info %d location length %d" % (i, ln))
            ln = 213
        pi["location"] = loc[:ln].decode("utf-8", "replace")
        pi["locationRaw"] = loc[:ln].hex()
        if loc[ln:].strip(b"\0"):
            p.v("location-padding", "pack info %d location padding not zero" % i)
        pi["_pos"] = p.base + o
        try:
            # the pinned creator records the size of the copy *including* its CRC (5 / 37), unlike
            # every other SizedOffset; the reader never follows this pointer. Accept both.
            csz = pi["checkInfo"]["size"]
            first = p.data[p.base + pi["checkInfo"]["offset"]] if pi["checkInfo"]["offset"] < p.size else None
            inner = {0: 1, 1: 33}.get(first)
            if inner is not None and csz == inner + 4:
                csz = inner
                pi["checkCopySizeIncludesCrc"] = True
            cb = p.block("PackCheckCopy", pi["checkInfo"]["offset"], csz, packinfo=i)
            pi["checkCopy"] = cb.hex()
        except LayoutViolation as e:
            p.v(e.rule, "pack info %d check copy: %s" % (i, e.detail), e.pos)
        pis.append(pi)
    info["packInfos"] = pis
    if vso["size"] or vso["offset"]:
        info["valueStore"] = decode_value_store(p, vso, 0)
    else:
        info["valueStore"] = None


# ---------------------------------------------------------------- container pack
def decode_container(p, info, out, depth):
    h = p.block("ContainerPackHeader", 64, 60)
    info["locatorsPos"] = u(h[0:8])
    info["packCount"] = u(h[8:10])
    if h[10:36].strip(b"\0"):
        p.v("header-padding", "container header reserved bytes not zero")
    info["freeData"] = h[36:60].hex()
    locs, packs = [], []
    for i in range(info["packCount"]):
        b = p.block("PackLocator", info["locatorsPos"] + 36 * i, 32, locator=i)
        loc = {"uuid": str(_uuid.UUID(bytes=bytes(b[0:16]))), "size": u(b[16:24]), "offset": u(b[24:32])}
        locs.append(loc)
        if loc["offset"] + loc["size"] > info["locatorsPos"] or loc["offset"] < 128:
            p.v("pointer-outside-pack", "locator %d [%d,+%d)" % (i, loc["offset"], loc["size"]))
            continue
        p.blocks.append({"kind": "NestedPack", "begin": p.base + loc["offset"], "end": p.base + loc["offset"] + loc["size"],
                         "size": loc["size"], "crc": None, "uuid": loc["uuid"]})
        try:
            sub = decode_pack(p.data, p.base + loc["offset"], loc["size"], out, depth + 1)
            if sub["uuid"] != loc["uuid"]:
                p.v("locator-uuid", "locator %d says %s, pack says %s" % (i, loc["uuid"], sub["uuid"]))
            if sub["packSize"] != loc["size"]:
                p.v("locator-size", "locator %d size %d, pack size %d" % (i, loc["size"], sub["packSize"]))
            packs.append(sub)
        except LayoutViolation as e:
            p.v(e.rule, "nested pack %d: %s" % (i, e.detail), e.pos)
    if info["locatorsPos"] + 36 * info["packCount"] != info["checkInfoPos"]:
        p.v("locators-not-before-check", "%d + 36*%d != %d" % (info["locatorsPos"], info["packCount"], info["checkInfoPos"]))
    info["locators"], info["packs"] = locs, packs


# ---------------------------------------------------------------- entry points
def decode_file(path, data=None, check_hash=True):
    if data is None:
        with open(path, "rb") as f:
            data = f.read()
    out = {"file": path, "size": len(data), "packs": [], "violations": [], "drift": [], "check_hash": check_hash}
    try:
        base = 0
        if len(data) >= 64 and data[:3] != b"jbk":
            # embedded at the end of another file: the mirrored tail gives the pack size
            tail = bytes(reversed(data[-64:]))
            if tail[:3] == b"jbk":
                ps = u(tail[32:40])
                phys = u(tail[40:48]) + (37 if data[len(data) - 64 - 37] == 1 and chr(tail[3]) != "C" else 5) + 64
                base = len(data) - max(ps, phys) if max(ps, phys) <= len(data) else 0
                out["embeddedAt"] = base
        pk = decode_pack(data, base, len(data) - base, out)
        out["packs"].append(pk)
        if pk["physEnd"] != len(data):
            out["drift"].append({"rule": "trailing-bytes", "end": pk["physEnd"], "size": len(data)})
    except LayoutViolation as e:
        out["violations"].append({"rule": e.rule, "detail": e.detail, "pos": e.pos, "pack": None})
    return out


def all_packs(out):
    res = []

    def rec(pk):
        res.append(pk)
        for s in pk.get("packs", []):
            rec(s)
    for pk in out["packs"]:
        rec(pk)
    return res


def strip(o):
    """JSON-able copy without private (_x) members"""
    if isinstance(o, dict):
        return {k: strip(v) for k, v in o.items() if not k.startswith("_")}
    if isinstance(o, list):
        return [strip(x) for x in o]
    if isinstance(o, (bytes, bytearray)):
        return o.hex()
    return o


if __name__ == "__main__":
    r = decode_file(sys.argv[1])
    if "--blocks" not in sys.argv:
        for pk in all_packs(r):
            pk.pop("blocks", None)
    json.dump(strip(r), sys.stdout, indent=1)
    print()
