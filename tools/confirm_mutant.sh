#!/bin/bash
# confirm_mutant.sh <worktree>: (1) patch applies to a clean tree, (2) with it: builds, the repository's tests pass,
# the demonstration fails, (3) without it the demonstration passes.  Leaves the change applied.
D=$1; cd $D || exit 2
export CARGO_TARGET_DIR=$D/target
demo=$(ls tests/mutant_demo*.rs 2>/dev/null | head -1)
git apply -R MUTANT/patch.diff 2>/dev/null || { git checkout -- src; }
git diff --quiet -- src || { echo "tree not clean after reverse"; exit 2; }
git apply --check MUTANT/patch.diff || { echo "PATCH DOES NOT APPLY"; exit 1; }
if [ -n "$demo" ]; then
  t=$(basename $demo .rs)
  timeout 900 cargo test --offline --features lz4,lzma,zstd --test $t > /tmp/cm2_without.log 2>&1; rc0=$?
else rc0=skip; fi
git apply MUTANT/patch.diff
timeout 900 cargo test --offline --lib --test creator_jubako --test jubako > /tmp/cm2_suite.log 2>&1; rcs=$?
if [ -n "$demo" ]; then
  timeout 900 cargo test --offline --features lz4,lzma,zstd --test $t > /tmp/cm2_with.log 2>&1; rc1=$?
else rc1=skip; fi
echo "demo without change rc=$rc0 (want 0); suite with change rc=$rcs (want 0) [$(grep -h 'test result' /tmp/cm2_suite.log | tr '\n' ' ' | cut -c1-160)]; demo with change rc=$rc1 (want != 0)"
