"""C08: the created container does not depend on how compression workers are scheduled.
ClusterPipeline.tla exhaustively (all schedules of W workers, the writer and the main thread);
real runs with 1..15 workers (taskset), seeded delays inside every Progress callback, queues
shorter and longer than the back-pressure limit, validated by ClusterPipelineTrace (pipeline
invariants on the observable projection) and ContentPackTrace (every address resolves)."""
import json
import os
import random
import shutil
import subprocess
import time

import common as C
import jbkdec
import p_content as P

MIB = 1 << 20

PIPE_CFG = """SPECIFICATION TraceSpec
INVARIANT Done
POSTCONDITION TraceAccepted
CHECK_DEADLOCK FALSE
"""


def mc_cfg(w, n, q, rebase=True, index_assign=True):
    return """CONSTANTS
  W = %d
  N = %d
  MaxQueue = %d
  Rebase = %s
  IndexAssign = %s
SPECIFICATION FairSpec
INVARIANTS QueueBound WrittenOnce NoOverlap AddressPointsToOwnTail AllAddressed NothingLost
PROPERTIES Terminates
CHECK_DEADLOCK FALSE
""" % (w, n, q, "TRUE" if rebase else "FALSE", "TRUE" if index_assign else "FALSE")


HOOK_CFG = """SPECIFICATION TraceSpec
INVARIANT Done
POSTCONDITION TraceAccepted
CHECK_DEADLOCK FALSE
"""


def make_scn(rng, k, nclusters, comp, delay_us):
    ops = []
    cid = 0
    for c in range(nclusters):
        r = rng.random()
        if r < 0.6:
            # one compressed cluster per content: bigger than half a cluster
            cid += 1
            ops.append({"cid": cid, "size": 2 * MIB + 4096 + rng.randrange(0, 50000), "cls": "low", "hint": "yes"})
        elif r < 0.8:
            # a compressed cluster of several contents
            for _ in range(rng.choice([2, 3])):
                cid += 1
                ops.append({"cid": cid, "size": 1400000 + rng.randrange(0, 1000), "cls": "low", "hint": "yes"})
        else:
            cid += 1
            ops.append({"cid": cid, "size": rng.choice([0, 10, 70000, MIB, 3 * MIB]), "cls": "rand", "hint": "no"})
    # contents come from memory, from whole files and from sub-ranges of files (the writer copies file-backed
    # contents through another path than buffers held in memory)
    for o in ops:
        o["src"] = rng.choice(["mem", "mem", "file", "range"])
        o["origin"] = rng.choice([1, 777, 4097])
    return {"kind": "content", "id": "p%d" % k, "comp": comp, "level": {"zstd": rng.choice([-22, 1, 3]), "lz4": 0, "lzma": 0}[comp],
            "ops": ops, "delay_seed": rng.randrange(1, 1 << 30), "delay_max_us": delay_us, "origin": "pipeline"}


def pipeline_events(s, run, pk, verb):
    sid = s["id"]
    new = next(e for e in run["events"] if e["ev"] == "New")
    evs = [{"ev": "New", "scn": sid, "workers": new["workers"]}]
    for e in run["events"]:
        if e["ev"] == "NewCluster":
            evs.append({"ev": "NewCluster", "scn": sid, "id": e["id"], "comp": e["comp"]})
        elif e["ev"] == "Handle":
            evs.append({"ev": "Handle", "scn": sid, "id": e["id"], "comp": e["comp"]})
        elif e["ev"] == "Written":
            evs.append({"ev": "Written", "scn": sid, "id": e["id"]})
    for c in sorted(pk["clusters"], key=lambda c: c["dataPos"]):
        evs.append({"ev": "Seg", "scn": sid, "id": c["id"], "data": c["dataPos"], "rawSize": c["rawSize"], "tail": c["tailPos"],
                    "end": c["tailPos"] + c["tailSize"] + 4, "compressed": c["comp"] != 0})
    for c in pk["clusters"]:
        evs.append({"ev": "Addr", "scn": sid, "id": c["id"], "tailOfOwnSeg": bool(verb.get(c["id"]))})
    evs.append({"ev": "Done", "scn": sid, "clusterCount": pk["clusterCount"]})
    return evs



FAULT_CFG = """SPECIFICATION FTraceSpec
INVARIANT Done
POSTCONDITION TraceAccepted
CHECK_DEADLOCK FALSE
"""


def faults_mc_cfg(w, n, q, dec, faults, stuck_inv, wfaults=False):
    return """CONSTANTS
  W = %d
  N = %d
  MaxQueue = %d
  Rebase = TRUE
  IndexAssign = TRUE
  DecOnFail = %s
  MaxFaults = %d
  WorkerFaults = %s
SPECIFICATION FFairSpec
INVARIANTS FTypeOK OkMeansComplete FailureReported PrefixSafe WriterEndsWellOnlyIfComplete %s
%s
CHECK_DEADLOCK FALSE
""" % (w, n, q, "TRUE" if dec else "FALSE", faults, "TRUE" if wfaults else "FALSE", "NeverStuck" if stuck_inv else "",
       ("PROPERTIES " + " ".join((["Settles"] if dec or not (faults or wfaults) else []) + ([] if (faults or wfaults) else ["NoFaultIsOk"])))
       if (dec or not (faults or wfaults)) else "")


def fault_path_stage(rep, prop, tier, hooked, base, rng):
    """The failure path of the writer thread (PipelineFaults.tla): behaviour beyond the listed properties.  Nothing here can
    become a VIOLATION: the stage records (1) what TLC says about the code's policy and about the repaired one and (2) whether
    the real code, made to fail a write, still follows the modelled fault path and ends where the model says it can."""
    obs = {"design": [], "runs": [], "outcomes": {}, "sites": {}}
    w, n, q = (1, 4, 2) if tier == "quick" else (2, 6, 4)
    # (1) design level: safety under both policies; the code's policy reaches Stuck, the repaired one settles
    r = C.tlc("PipelineFaults", faults_mc_cfg(w, n, q, False, 1, True), "MC_PipelineFaults_code", timeout=1800)
    rep.add_tlc(r, "MC_PipelineFaults code policy W=%d N=%d MaxQueue=%d (expected: NeverStuck violated)" % (w, n, q))
    obs["design"].append({"policy": "code (no decrement when the send fails)", "violated": r["violated"], "states": r["states"]})
    stuck_reachable = (r["violated"] == "NeverStuck")
    if r["violated"] not in ("NeverStuck",):
        rep.drift("PipelineFaults (code policy): expected the state Stuck to be reachable, TLC says violated=%s" % r["violated"])
    r = C.tlc("PipelineFaults", faults_mc_cfg(w, n, q, False, 1, False), "MC_PipelineFaults_code_safety", timeout=1800)
    rep.add_tlc(r, "MC_PipelineFaults code policy, safety only (OkMeansComplete FailureReported PrefixSafe)")
    obs["design"].append({"policy": "code, safety invariants only", "violated": r["violated"], "states": r["states"]})
    if not r["ok"]:
        rep.drift("PipelineFaults (code policy): a safety invariant fails: %s" % r["violated"])
    r = C.tlc("PipelineFaults", faults_mc_cfg(w, n, q, True, 1, True), "MC_PipelineFaults_repaired", timeout=1800)
    rep.add_tlc(r, "MC_PipelineFaults repaired policy (decrement + notify whatever the send says): Settles, NeverStuck")
    obs["design"].append({"policy": "repaired (DecOnFail)", "violated": r["violated"], "states": r["states"]})
    if not r["ok"]:
        rep.drift("PipelineFaults (repaired policy) violates %s" % r["violated"])
    # a worker's own failure (its compression returns an error): modelled from the code only
    r = C.tlc("PipelineFaults", faults_mc_cfg(w, n, q, False, 0, True, wfaults=True), "MC_PipelineFaults_code_workerfail", timeout=1800)
    rep.add_tlc(r, "MC_PipelineFaults code policy, failing workers only (expected: NeverStuck violated)")
    obs["design"].append({"policy": "code, a worker's compression fails, the writer does not", "violated": r["violated"], "states": r["states"]})
    if r["violated"] != "NeverStuck":
        rep.drift("PipelineFaults (code policy, failing workers): expected Stuck to be reachable, TLC says violated=%s" % r["violated"])
    r = C.tlc("PipelineFaults", faults_mc_cfg(w, n, q, True, 1, True, wfaults=True), "MC_PipelineFaults_repaired_both", timeout=1800)
    rep.add_tlc(r, "MC_PipelineFaults repaired policy, failing writer and failing workers: Settles, NeverStuck")
    obs["design"].append({"policy": "repaired, writer and workers may fail", "violated": r["violated"], "states": r["states"]})
    if not r["ok"]:
        rep.drift("PipelineFaults (repaired policy, writer and workers failing) violates %s" % r["violated"])
    r = C.tlc("PipelineFaults", faults_mc_cfg(w, n, q, False, 0, True), "MC_PipelineFaults_nofault", timeout=1800)
    rep.add_tlc(r, "MC_PipelineFaults without a fault: the extension is the original machine (Settles in ok)")
    if not r["ok"]:
        rep.drift("PipelineFaults without faults violates %s" % r["violated"])
    # (2) the real code: one write of the writer fails with EFBIG (prlimit --fsize, SIGXFSZ ignored); trace through stdout
    # (the limit applies to every regular file the process writes, a trace file included)
    events, scns = [], []
    ncpu = os.cpu_count() or 2
    # (cpus, file-size limit, every how many clusters a raw one: 0 = all compressed)
    plans = [(1, 400, 0), (1, 700, 0), (1, 1200, 0), (3, 700, 0), (3, 1500, 0), (1, 700, 3), (3, 900, 4), (1, 500, 2)] if tier == "quick" else \
            [(c, f, m) for c in (1, 2, 3, 4) for f in (300, 400, 700, 1000, 1200, 1500, 2200) for m in (0, 3)] + [(16, 700, 0), (16, 2500, 5)]
    for k, (cpus, fsize, mix) in enumerate(plans):
        if cpus > ncpu:
            continue
        ncl = 8 if cpus < 3 else (14 if cpus < 8 else 48)
        ops = [{"cid": i + 1, "size": 2 * MIB + 4096 + i, "cls": "low", "hint": "yes", "src": "mem", "origin": 1} if not (mix and i % mix == mix - 1) else
               {"cid": i + 1, "size": 70000 + i, "cls": "rand", "hint": "no", "src": "mem", "origin": 1} for i in range(ncl)]
        sid = "flt%d" % k
        s = {"kind": "content", "id": sid, "comp": "zstd", "level": 1, "ops": ops, "delay_seed": rng.randrange(1, 1 << 30),
             "delay_max_us": 20000, "origin": "pipeline-faults", "dir": os.path.join(base, sid), "trace_hooks": True, "read": False}
        sf = os.path.join(base, sid + ".scn")
        os.makedirs(base, exist_ok=True)
        with open(sf, "w") as f:
            f.write(json.dumps(s) + "\n")
        env = dict(os.environ, VERIF_IGNORE_XFSZ="1", VERIF_SCN_TIMEOUT="6", VERIF_POOL=C.POOL, RUST_BACKTRACE="0")
        cmd = ["taskset", "-c", "0-%d" % (cpus - 1) if cpus > 1 else "0", "prlimit", "--fsize=%d" % fsize, hooked, "run", sf]
        try:
            p = subprocess.run(cmd, env=env, capture_output=True, timeout=60)
        except subprocess.TimeoutExpired:
            rep.drift("fault path: run %s did not end within 60 s although the watchdog is set to 6 s" % sid)
            continue
        raw = []
        for line in p.stdout.decode("utf-8", "replace").splitlines():
            try:
                raw.append(json.loads(line))
            except ValueError:
                pass
        fin = next((e for e in raw if e.get("ev") == "Finalize"), None)
        if p.returncode == 98:
            status = "hang"
        elif fin is not None and fin.get("ok"):
            status = "ok"
        elif fin is not None:
            status = "fail"
        else:
            status = "crash:%s" % p.returncode
        obs["outcomes"][status] = obs["outcomes"].get(status, 0) + 1
        for e in raw:
            if e.get("ev") == "PanicSite":
                site = "%s at %s" % ("worker" if str(e.get("thread")).startswith("ClusterComp") else e.get("thread"), os.path.basename(str(e.get("site"))))
                obs["sites"][site] = obs["sites"].get(site, 0) + 1
        obs["runs"].append({"cpus": cpus, "fsize": fsize, "raw_every": mix, "clusters": ncl, "status": status,
                            "panics": [(e.get("thread"), os.path.basename(str(e.get("site")))) for e in raw if e.get("ev") == "PanicSite"]})
        if status.startswith("crash"):
            rep.drift("fault path: run %s ended with %s (neither a result nor the watchdog)" % (sid, status))
            continue
        evs = [{"ev": "New", "scn": sid, "workers": e["workers"], "maxQueue": e["maxQueue"]} for e in raw if e["ev"] == "New"]
        for e in raw:
            if e["ev"] == "Hook":
                evs.append({"ev": "Hook", "scn": sid, "name": e["name"], "id": e["id"], "a": e["a"], "b": e["b"], "thread": e["thread"]})
            elif e["ev"] == "PanicSite":
                evs.append({"ev": "Panic", "scn": sid, "thread": e.get("thread") or "?", "site": str(e.get("site"))})
        evs.append({"ev": "Outcome", "scn": sid, "status": status})
        events += evs
        scns.append(s)
        shutil.rmtree(s["dir"], ignore_errors=True)
    accepted = None
    if events:
        ev_left = events
        for rnd in range(4):
            tv = C.validate_trace("PipelineFaultsTrace", FAULT_CFG, "PipelineFaultsTrace_%s_%d" % (prop, rnd), ev_left, timeout=600)
            rep.add_tlc(tv, "PipelineFaultsTrace round %d" % rnd)
            if tv["accepted"]:
                accepted = (rnd == 0)
                break
            ev = tv.get("rejected_event") or {}
            rep.drift("fault path: the code departs from PipelineFaults at %s" % json.dumps({k_: v for k_, v in ev.items()}, sort_keys=True)[:240])
            accepted = False
            ev_left = [e for e in ev_left if e.get("scn") != ev.get("scn")]
            if not ev_left or ev.get("scn") is None:
                break
    obs["trace_accepted"] = accepted
    obs["trace_events"] = len(events)
    hangs = obs["outcomes"].get("hang", 0)
    obs["summary"] = ("OBSERVATION (outside the listed properties): after a failed write of the writer thread the workers leave by a panic without "
                      "decrementing nb_cluster_in_queue; a main thread waiting for room in the queue then waits forever. TLC: Stuck %s under the "
                      "code's policy, unreachable under DecOnFail. Real code: %d of %d faulted runs hung (watchdog), each in the state Stuck."
                      % ("reachable" if stuck_reachable else "NOT reachable", hangs, len(obs["runs"])))
    print("OBSERVATION: pipeline fault path: %d/%d faulted runs hang (model state Stuck); trace %s" %
          (hangs, len(obs["runs"]), "accepted" if accepted else "not fully accepted"), flush=True)
    rep.cov["fault_path"] = obs


def run(prop, tier):
    rep = C.Report(prop, tier)
    rng = random.Random(C.SEED * 32452843 + 8)
    binary = C.build("debug")
    # 1. design level
    grid = [(1, 4, 1), (1, 4, 2), (2, 4, 1), (2, 4, 4), (3, 4, 1), (3, 4, 6)]
    if tier == "thorough":
        grid += [(2, 5, 4), (3, 5, 6), (2, 6, 2)]
    for w, n, q in grid:
        r = C.tlc("ClusterPipeline", mc_cfg(w, n, q), "MC_ClusterPipeline_W%d_N%d_Q%d" % (w, n, q), timeout=2400)
        rep.add_tlc(r, "MC_ClusterPipeline W=%d N=%d MaxQueue=%d" % (w, n, q))
        if not r["ok"]:
            rep.violation("design: ClusterPipeline(W=%d,N=%d,Q=%d) violates %s" % (w, n, q, r["violated"]), {"tlc": r.get("out", "")[-3000:]})
        if r["uncovered"]:
            raise C.ToolError("ClusterPipeline: actions never taken: %s" % r["uncovered"])
    C.log("[%s] design level done %.0fs" % (prop, time.time() - rep.t0))
    # 2. real runs
    ncpu = os.cpu_count() or 2
    # number of CPUs the creator may use (taskset): its worker count is max(cpus, 2) - 1, so 1 and 2 CPUs both give one
    # worker (two different code paths of the floor), 3 gives 2, 16 gives 15
    settings = [1, 2, 3, 16] if tier == "quick" else list(range(1, 17))
    settings = [c for c in settings if c <= ncpu] or [1]
    seeds = 12 if tier == "quick" else 60
    base = os.path.join(C.WORK, "run_%s" % prop)
    shutil.rmtree(base, ignore_errors=True)
    os.makedirs(base)
    content_events, pipe_events, all_scns = [], [], []
    nscn, k = 0, 0
    nontrivial = set()
    for w in settings:
        scns = []
        for sd in range(seeds):
            k += 1
            ncl = rng.choice([5, 12, 12, 31] if tier == "quick" else [5, 12, 31, 80])
            if w == 16 and sd == 0:
                ncl = 40             # longer than 2*W = 30
            s = make_scn(rng, k, ncl, rng.choice(["zstd", "zstd", "lz4"] if tier == "quick" else ["zstd", "lz4", "lzma"]),
                         rng.choice([0, 200, 3000]))
            s["dir"] = os.path.join(base, s["id"])
            s["workers_setting"] = w
            scns.append(s)
        all_scns += scns
        prefix = ["taskset", "-c", "0-%d" % (w - 1) if w > 1 else "0"] if w < ncpu else None
        runs = C.run_scenarios(binary, [dict((a, b) for a, b in s.items()) for s in scns], "%s_w%d" % (prop, w),
                               timeout=1200 if tier == "quick" else 7200, prefix=prefix, max_failures=3, env_extra={"VERIF_SCN_TIMEOUT": "120"})
        for s in scns:
            r = runs.get(s["id"], {"events": [], "status": "crash:notrun"})
            if r["status"] == "skipped":
                continue
            evs, problems, pk = P.annotate(s, r, want_verbatim=True)
            for sig, detail in problems:
                rep.violation("%s cpus=%d delay=%d %s" % (prop, w, s["delay_max_us"], sig), detail)
            if evs and pk is not None:
                verb = {e["cluster"]: e["ok"] and e["algoOk"] for e in evs if e["ev"] == "Verbatim"}
                content_events += [e for e in evs if e["ev"] != "Verbatim"]
                pe = pipeline_events(s, r, pk, verb)
                pipe_events += pe
                nscn += 1
                obs_workers = next(e["workers"] for e in r["events"] if e["ev"] == "New")
                order = tuple(e["id"] for e in r["events"] if e["ev"] == "Written")
                nontrivial.add((obs_workers, order))
                if len(rep.cov["samples"]) < 3:
                    rep.cov["samples"].append({"workers": obs_workers, "delay_max_us": s["delay_max_us"], "clusters": pk["clusterCount"],
                                               "written_order": list(order)[:40],
                                               "file_order": [c["id"] for c in sorted(pk["clusters"], key=lambda c: c["dataPos"])][:40],
                                               "trace": pe[:8]})
            shutil.rmtree(s["dir"], ignore_errors=True)
        C.log("[%s] cpus=%d done %.0fs" % (prop, w, time.time() - rep.t0))
    # 2b. inside the pipeline: the hooked build logs every step of ClusterPipeline (dispatch, take, done, counter, write, address)
    hooked = C.build("debug", hooked=True)
    hook_events, hook_scns = [], []
    for w in settings:
        scns = []
        for sd in range(4 if tier == "quick" else 12):
            k += 1
            s = make_scn(rng, k, rng.choice([5, 12, 31]), rng.choice(["zstd", "lz4"]), rng.choice([0, 200, 3000]))
            s["id"] = "h%d" % k
            s["dir"] = os.path.join(base, s["id"])
            s["workers_setting"] = w
            s["trace_hooks"] = True
            s["read"] = False
            scns.append(s)
        prefix = ["taskset", "-c", "0-%d" % (w - 1) if w > 1 else "0"] if w < ncpu else None
        runs = C.run_scenarios(hooked, [dict(s) for s in scns], "%s_h%d" % (prop, w), timeout=1200, prefix=prefix, max_failures=3, env_extra={"VERIF_SCN_TIMEOUT": "120"})
        for s in scns:
            r = runs.get(s["id"], {"events": [], "status": "crash:notrun"})
            if r["status"] == "skipped":
                continue
            fin = next((e for e in r["events"] if e["ev"] == "Finalize"), None)
            if r["status"] != "ok" or not fin or not fin.get("ok"):
                rep.violation("%s cpus=%d (hooked build) create %s %s" % (prop, w, r["status"] if r["status"] != "ok" else "failed", P.opsig(s)), {"finalize": fin, "last": r["events"][-3:]})
                continue
            dec = jbkdec.decode_file(fin["file"], check_hash=False)
            pk = next((p_ for p_ in jbkdec.all_packs(dec) if p_["kind"] == "c"), None)
            evs = [{"ev": "New", "scn": s["id"], "workers": e["workers"], "maxQueue": e["maxQueue"]} for e in r["events"] if e["ev"] == "New"]
            evs += [{"ev": "Hook", "scn": s["id"], "name": e["name"], "id": e["id"], "a": e["a"], "b": e["b"], "thread": e["thread"]} for e in r["events"] if e["ev"] == "Hook"]
            if pk is None:
                rep.violation("%s cpus=%d (hooked build) no content pack decoded %s" % (prop, w, P.opsig(s)), {"violations": dec["violations"][:3]})
                continue
            for c in pk["clusters"]:
                evs.append({"ev": "Tail", "scn": s["id"], "id": c["id"], "tail": c["tailPos"]})
            evs.append({"ev": "Done", "scn": s["id"], "clusterCount": pk["clusterCount"]})
            hook_events += evs
            hook_scns.append(s)
            shutil.rmtree(s["dir"], ignore_errors=True)
    C.log("[%s] hooked runs done %.0fs (%d events)" % (prop, time.time() - rep.t0, len(hook_events)))
    fault_path_stage(rep, prop, tier, hooked, os.path.join(base, "faults"), rng)
    C.log("[%s] fault path stage done %.0fs" % (prop, time.time() - rep.t0))
    # 3. code -> spec
    import p_entries as E
    E.validate_all(rep, prop, hook_scns, hook_events, "PipelineHooksTrace", HOOK_CFG, sigf=lambda s: "hooks workers=%s delay=%s clusters~%d" % (s.get("workers_setting"), s.get("delay_max_us"), len(s["ops"])))
    rep.cov["hooked_runs"] = len(hook_scns)
    rep.cov["hook_events"] = len(hook_events)
    E.validate_all(rep, prop, all_scns, pipe_events, "ClusterPipelineTrace", PIPE_CFG, sigf=lambda s: "workers=%s delay=%s clusters~%d" % (s.get("workers_setting"), s.get("delay_max_us"), len(s["ops"])))
    E.validate_all(rep, prop, all_scns, content_events, "ContentPackTrace", P.trace_cfg(False), sigf=lambda s: "workers=%s %s" % (s.get("workers_setting"), P.opsig(s)))
    rep.cov["traces_validated_against_impl"] = nscn
    rep.cov["trace_events"] = len(pipe_events) + len(content_events)
    rep.cov["evaluations"] = len(all_scns)
    rep.cov["distinct_nontrivial"] = len(nontrivial)
    rep.cov["rule"] = ("runs = CPUs available to the creator %s (taskset; workers = max(cpus, 2) - 1) x %d seeds, 5..80 clusters mixing raw and compressed, seeded delays of 0/200/3000 us in every "
                       "Progress callback; distinct = different (worker count, order in which clusters were written); non-trivial = all (>= 5 clusters)" % (settings, seeds))
    rep.assumptions += ["schedules of the real code are sampled (seeded perturbation), the protocol is explored exhaustively in ClusterPipeline.tla",
                        "available_parallelism follows the CPU affinity mask (taskset)"]
    shutil.rmtree(base, ignore_errors=True)
    return rep.finish()
