"""C03 (sorted stores follow the reader's order; lookup exact) and C15 (references resolve to final
positions): EntryOrder.tla exhaustively, its behaviours replayed through the real creator /
reader, and EntryOrderTrace.tla validating what the code did."""
import json
import random
import time

import common as C
import p_entries as E

BYTE = {0: 0x00, 1: 0x61, 2: 0xFF}

ORDER_CFG = """CONSTANTS
  Radix = 256
  NDigits = 8
  SignedRule = "minmax"
SPECIFICATION OrderSpec
INVARIANT Done
POSTCONDITION TraceAccepted
CHECK_DEADLOCK FALSE
"""


def mc_cfg(mode, **kw):
    d = dict(Alphabet="{0}", MaxLen=0, Prefixes="{0}", StoreKinds='{"plain"}', MaxKeys=1, KeyDomain="{0}", MaxSeq=0,
             NEntries=1, SizeBeforeAssign="FALSE", Radix=4, Dups="FALSE", EqualIsGreater="FALSE")
    d.update(kw)
    spec = "FairSpec" if mode == "find" else "Spec"
    inv = {"order": "WriterOrderIsReaderOrder", "find": "FindSound FindComplete LoopInv ModesAgree FindBounded SortedIsAccepted",
           "refs": "RefsAreFinal HandlesAreFinal"}[mode]
    props = "PROPERTIES FindTerminates\n" if mode == "find" else ""
    return """CONSTANTS
  Radix = %s
  NDigits = 3
  SignedRule = "minmax"
  Mode = "%s"
  Alphabet = %s
  MaxLen = %s
  Prefixes = %s
  StoreKinds = %s
  MaxKeys = %s
  KeyDomain = %s
  MaxSeq = %s
  Dups = %s
  EqualIsGreater = %s
  NEntries = %s
  SizeBeforeAssign = %s
SPECIFICATION %s
INVARIANTS %s Replay
%sCHECK_DEADLOCK FALSE
""" % (d["Radix"], mode, d["Alphabet"], d["MaxLen"], d["Prefixes"], d["StoreKinds"], d["MaxKeys"], d["KeyDomain"], d["MaxSeq"], d["Dups"], d["EqualIsGreater"],
       d["NEntries"], d["SizeBeforeAssign"], spec, inv, props)


def key_scn(idn, keys, prefix, kind, extra_probes, origin, window=None, keytype="array", sort=True):
    """one store sorted on `k` (array or uint), one entry per key, payload column n"""
    entries = []
    for j, k in enumerate(keys):
        kv = {"a": list(k)} if keytype == "array" else ({"u": k} if keytype == "uint" else {"s": k})
        entries.append({"values": {"k": kv, "n": {"u": j}}})
    n = len(entries)
    kp = {"name": "k", "type": keytype}
    if keytype == "array":
        kp.update(prefix=prefix, store=0)
    indexes = [{"name": "main", "offset": 0, "count": n}]
    if window:
        indexes.append({"name": "win", "offset": window[0], "count": window[1]})
    finds = []
    for ix in indexes:
        for p in list(keys) + list(extra_probes):
            pv = {"a": list(p)} if keytype == "array" else ({"u": p} if keytype == "uint" else {"s": p})
            finds.append({"index": ix["name"], "props": ["k"], "values": [pv]})
    return {"kind": "entries", "id": idn, "stores": [kind],
            "schema": {"common": [kp, {"name": "n", "type": "uint"}], "variants": [], "sort": ["k"] if sort else None},
            "entries": entries, "indexes": indexes, "finds": finds, "origin": origin, "expect": "ok",
            "read_stride": 1 if n <= 300 else 13}


def c03_scenarios(tier, mc, rng):
    scns = []
    order = [b for t, b in mc if b["mode"] == "order"]
    find = [b for t, b in mc if b["mode"] == "find"]
    rng.shuffle(order)
    rng.shuffle(find)
    for k, b in enumerate(order[:150 if tier == "quick" else 3000]):
        keys = [bytes(BYTE[x] for x in s) for s in b["keys"]]
        absent = [bytes([0x61]), b"", bytes([0xFF, 0xFF, 0xFF, 0xFF]), keys[0] + b"\x00", keys[0][:-1]]
        absent = [a for a in absent if a not in keys]
        scns.append(key_scn("o%d" % k, keys, b["prefix"], b["store"]["kind"], absent, "tlc:order"))
    for k, b in enumerate(find[:120 if tier == "quick" else 4000]):
        seq = [v * 1000 + 7 for v in b["seq"]]
        scns.append(key_scn("f%d" % k, seq, 0, "plain", [b["probe"] * 1000 + 7, 3, 10 ** 12], "tlc:find",
                            window=(b["off"], b["count"]), keytype="uint"))
    # seeded: 1 .. thousands of keys sharing prefixes around the inline prefix length
    nrand = 40 if tier == "quick" else 600
    for k in range(nrand):
        prefix = rng.choice([0, 1, 2, 3, 4, 8, 31])
        kind = rng.choice(["plain", "indexed"])
        nk = rng.choice([1, 2, 3, 10, 50, 400]) if tier == "quick" or k % 10 else rng.choice([2000, 5000])
        stem = bytes(rng.randrange(256) for _ in range(prefix + 2))
        keys = set()
        while len(keys) < nk:
            r = rng.random()
            if r < 0.1:
                cand = b""
            elif r < 0.5:
                cut = rng.randrange(0, len(stem) + 1)
                cand = stem[:cut] + bytes(rng.choice([0x00, 0xFF, 0x61, rng.randrange(256)]) for _ in range(rng.randrange(0, 4)))
            else:
                cand = bytes(rng.randrange(256) for _ in range(rng.randrange(0, 12)))
            keys.add(cand)
        keys = list(keys)
        rng.shuffle(keys)
        probes = rng.sample(keys, min(len(keys), 12))
        absent = [p + b"\x00" for p in probes[:3]] + [stem + b"zz"]
        absent = [a for a in absent if a not in keys]
        s = key_scn("a%d" % k, keys, prefix, kind, absent, "random")
        s["finds"] = [f for f in s["finds"] if f["values"][0]["a"] in [list(p) for p in probes + absent]]
        if nk > 3:
            o = rng.randrange(0, nk)
            c = rng.randrange(0, nk - o + 1)
            s["indexes"].append({"name": "win", "offset": o, "count": c})
            s["finds"] += [dict(f, index="win") for f in s["finds"] if f["index"] == "main"][:8]
        scns.append(s)
    for k in range(nrand // 2):
        typ = rng.choice(["uint", "sint"])
        pool = E.UBOUND if typ == "uint" else E.SBOUND
        nk = rng.choice([1, 2, 5, len(pool)])
        keys = rng.sample(pool, nk)
        s = key_scn("i%d" % k, keys, 0, "plain", [x for x in (9, -9, 4242) if x not in keys and (typ == "sint" or x >= 0)],
                    "random", keytype=typ)
        scns.append(s)
    # integer keys stored on w bytes, looked up with probes that differ from a written key only above those w bytes
    # (k + 2^(8w), k + 2^32, ...): the comparison must be made on the whole 64-bit value, in both search modes
    k = 0
    for w in range(1, 8):
        top = (1 << (8 * w)) - 1
        for typ in ("uint", "sint"):
            if typ == "uint":
                keys = sorted({7, top // 3, top - 1, top} if w > 1 else {7, 200, 255})
                probes = [x + (1 << (8 * w)) for x in keys] + [x + (1 << 32) for x in keys[:2] if w < 4] + [x + (1 << (8 * (w + 1))) for x in keys[:2] if w < 7]
            else:
                half = 1 << (8 * w - 1)
                keys = sorted({-half, -3, 5, half - 1})
                probes = [x + (1 << (8 * w)) for x in keys[:3]] + [x - (1 << (8 * w)) for x in keys[1:]]
                probes = [x for x in probes if -(1 << 63) <= x < (1 << 63)]
            probes = [x for x in probes if x not in keys]
            k += 1
            scns.append(key_scn("al%d" % k, keys, 0, "plain", probes, "directed:aliased-probes", window=(1, len(keys) - 1), keytype=typ))
    # multi-key sort: (uint group, array name)
    for k in range(6 if tier == "quick" else 60):
        n = rng.choice([3, 20, 200])
        seen, entries = set(), []
        for j in range(n):
            g = rng.randrange(0, 4)
            nm = bytes(rng.choice(b"ab\x00\xff") for _ in range(rng.randrange(0, 4)))
            if (g, nm) in seen:
                continue
            seen.add((g, nm))
            entries.append({"values": {"g": {"u": g}, "k": {"a": list(nm)}, "n": {"u": j}}})
        finds = [{"index": "main", "props": ["g", "k"], "values": [e["values"]["g"], e["values"]["k"]]} for e in entries[:10]]
        finds.append({"index": "main", "props": ["g", "k"], "values": [{"u": 9}, {"a": [1]}]})
        scns.append({"kind": "entries", "id": "mk%d" % k, "stores": [rng.choice(["plain", "indexed"])],
                     "schema": {"common": [{"name": "g", "type": "uint"}, {"name": "k", "type": "array", "prefix": rng.choice([0, 1, 2]), "store": 0},
                                           {"name": "n", "type": "uint"}], "variants": [], "sort": ["g", "k"]},
                     "entries": entries, "indexes": [{"name": "main", "offset": 0, "count": len(entries)}], "finds": finds,
                     "origin": "random", "expect": "ok"})
    return scns


def c15_scenarios(tier, mc, rng):
    scns = []
    refs = [b for t, b in mc if b["mode"] == "refs"]
    rng.shuffle(refs)
    for k, b in enumerate(refs[:250 if tier == "quick" else 6000]):
        n = len(b["key"])
        entries = [{"values": {"k": {"u": b["key"][i] * 300}, "lnk": {"r": b["ref"][i] - 1}}} for i in range(n)]
        scns.append({"kind": "entries", "id": "r%d" % k, "stores": ["plain"],
                     "schema": {"common": [{"name": "k", "type": "uint"}, {"name": "lnk", "type": "ref"}], "variants": [],
                                "sort": ["k"] if b["sorted"] else None},
                     "entries": entries, "indexes": [{"name": "main", "offset": 0, "count": n}], "origin": "tlc:refs", "expect": "ok"})
    sizes = [2, 3, 10, 255, 256, 257, 1000, 5000] if tier == "quick" else [2, 3, 10, 255, 256, 257, 1000, 5000, 20000, 65536, 70000]
    for k, n in enumerate(sizes * (1 if tier == "quick" else 3)):
        srt = (k % 3 != 0)
        keys = list(range(n))
        rng.shuffle(keys)
        pat = k % 4
        entries = []
        for i in range(n):
            if pat == 0:
                t = (i + 1) % n          # forward chain, cyclic
            elif pat == 1:
                t = max(i - 1, 0)        # backward
            elif pat == 2:
                t = i                    # self
            else:
                t = rng.randrange(n)
            entries.append({"variant": "A" if i % 2 else "B",
                            "values": dict({"k": {"a": list(b"%07d" % keys[i])}, "lnk": {"r": t}, "sl": {"rs": t}},
                                           **({"back": {"r": (i * 7) % n}} if i % 2 else {}))})
        # (an indexed store records one offset per value in a tail whose size is a 16-bit field: about 21 800 values at most, F4)
        scns.append({"kind": "entries", "id": "g%d" % k, "stores": [rng.choice(["plain", "indexed"]) if n <= 20000 else "plain"],
                     "schema": {"common": [{"name": "k", "type": "array", "prefix": rng.choice([0, 2, 7]), "store": 0},
                                           {"name": "lnk", "type": "ref"}, {"name": "sl", "type": "sref"}],
                                "variants": [{"name": "A", "props": [{"name": "back", "type": "ref"}]}, {"name": "B", "props": []}],
                                "sort": ["k"] if srt else None},
                     "entries": entries, "indexes": [{"name": "main", "offset": 0, "count": n}], "origin": "seeded", "expect": "ok",
                     "read_stride": 1 if n <= 300 else max(n // 150, 1)})
    # sort keys that are themselves references (a file-tree archiver sorting on (parent, name)): assigning
    # positions changes the keys, the store has to be sorted until it is stable
    for k, (depth, branching) in enumerate([(2, 3), (3, 3), (4, 2), (5, 3)] if tier == "quick" else [(2, 3), (3, 3), (4, 2), (5, 3), (6, 3), (5, 6), (8, 2)]):
        for srt in (True, False):
            nodes = []

            def rec(parent, d):
                for _ in range(branching):
                    idx = len(nodes)
                    nodes.append(parent if parent is not None else idx)      # a root refers to itself
                    if d + 1 < depth:
                        rec(idx, d + 1)
            rec(None, 0)
            ids = list(range(len(nodes)))
            rng.shuffle(ids)
            entries = [{"values": {"lnk": {"r": p}, "k": {"u": ids[i] * 3 + 1}}} for i, p in enumerate(nodes)]
            scns.append({"kind": "entries", "id": "t%d%s" % (k, "s" if srt else "u"), "stores": ["plain"],
                         "schema": {"common": [{"name": "lnk", "type": "ref"}, {"name": "k", "type": "uint"}], "variants": [],
                                    "sort": ["lnk", "k"] if srt else None},
                         "entries": entries, "indexes": [{"name": "main", "offset": 0, "count": len(entries)}], "origin": "tree", "expect": "ok",
                         "read_stride": 1 if len(entries) <= 400 else max(len(entries) // 200, 1)})
    return scns


def extra_events(s, run, evs, problems):
    """Order after Handles; Find events from the harness"""
    sid = s["id"]
    k = next((i for i, e in enumerate(evs) if e["ev"] == "Handles"), None)
    if k is not None:
        evs.insert(k + 1, {"ev": "Order", "scn": sid})
    # Scn carries the sort keys
    for e in evs:
        if e["ev"] == "Scn":
            e["sortKeys"] = s["schema"].get("sort") or []
    srt = bool(s["schema"].get("sort"))
    for e in run["events"]:
        if e["ev"] != "Find":
            continue
        f = s["finds"][e["k"]]
        if e["ordered"] and (not srt or f["props"] != s["schema"]["sort"][:len(f["props"])]):
            continue        # binary search is only meaningful on the store's sort keys
        res = e["res"]
        r = -2
        if res == "none":
            r = -1
        elif isinstance(res, dict) and "found" in res:
            r = res["found"]
        else:
            problems.append(("find %s %s %s" % ("panicked" if "panic" in res else "failed", json.dumps(res)[:80], E.esig(s)),
                             {"scn": E.slim(s), "find": e}))
        evs.append({"ev": "Find", "scn": sid, "index": e["index"], "props": f["props"], "vals": [E.enc(v) for v in f["values"]],
                    "ordered": e["ordered"], "probes": e["probes"], "complete": e["nprobes"] == len(e["probes"]), "res": r})


def design_level(rep, tier, which):
    out = []
    runs = []
    if which == "C03":
        runs.append(("order", mc_cfg("order", Alphabet="{0, 1, 2}", MaxLen=3, Prefixes="{0, 1, 2, 3}", StoreKinds='{"plain", "indexed"}',
                                      MaxKeys=2 if tier == "quick" else 3)))
        runs.append(("find", mc_cfg("find", KeyDomain="{0, 1, 2, 3, 4, 5, 6, 7, 8}", MaxSeq=7)))
        runs.append(("find", mc_cfg("find", KeyDomain="{0, 1, 2, 3, 4}", MaxSeq=4, Dups="TRUE")))
    else:
        runs.append(("refs", mc_cfg("refs", NEntries=4)))
    for name, cfg in runs:
        r = C.tlc("EntryOrder", cfg, "MC_EntryOrder_%s_%s" % (name, which), timeout=2400)
        rep.add_tlc(r, "MC_EntryOrder_" + name)
        if not r["ok"]:
            rep.violation("design: EntryOrder(%s) violates %s" % (name, r["violated"]), {"tlc": r.get("out", "")[-3000:]})
        for line in r["replay"]:
            b = C.unjson(line)
            out.append((name, b))
    return out


def run(prop, tier):
    rep = C.Report(prop, tier)
    rng = random.Random(C.SEED * 15485863 + (3 if prop == "C03" else 15))
    binary = C.build("debug")
    mc = design_level(rep, tier, prop)
    C.log("[%s] design level done %.0fs (%d behaviours)" % (prop, time.time() - rep.t0, len(mc)))
    scns = c03_scenarios(tier, mc, rng) if prop == "C03" else c15_scenarios(tier, mc, rng)
    E.run_and_validate(rep, prop, tier, scns, binary, module="EntryOrderTrace", cfg=ORDER_CFG, extra=extra_events)
    if prop == "C03":
        rep.cov["rule"] = ("scenarios = initial states of EntryOrder 'order' (key sets of byte strings <=3 over {00,61,ff} x prefix 0..3 x store kind) and "
                           "'find' (strictly increasing sequences <=7 x windows x probes), sampled, + seeded key sets (shared prefixes around the inline prefix, "
                           "empty key, 1..5000 keys, integer keys of both signs, two-key sorts); every key and several absent keys are looked up in both modes; "
                           "distinct = different (schema, first entries); non-trivial = at least 2 keys")
    else:
        rep.cov["rule"] = ("scenarios = every reference graph on 4 entries x key order x sorted/unsorted from EntryOrder 'refs' (sampled) + seeded stores "
                           "of 2..5000 (quick) / 70000 (thorough) entries with cyclic forward chains, backward, self and random references, in common and variant "
                           "parts; distinct = different (schema, first entries); non-trivial = at least 2 entries")
    rep.assumptions += ["keys of a sorted store are pairwise distinct (the property quantifies over key sets)"]
    return rep.finish()
