"""Logical containers: generation of whole-container scenarios (entries + contents + extra
content packs), the expected logical dump computed from the scenario alone (ground truth), and
comparison of dumps."""
import json

import b3
import jbkgen

PROPS_DEFAULT = ["name", "size", "blob", "kind", "extra"]


def make_container(rng, cid, n_entries=None, n_extras=0, comp=None, big=False, concat="one", mixed_hints=True, sizes=None, extra_ids=None):
    """a container whose entries describe its contents (name, size, content address)"""
    comp = comp or rng.choice(["none", "lz4", "lzma", "zstd"])
    level = {"none": 0, "lz4": 3, "lzma": 1, "zstd": rng.choice([1, 5])}[comp]
    n = n_entries if n_entries is not None else rng.choice([1, 2, 3, 6])
    ops, entries = [], []
    extras = [{"pack_id": (extra_ids[j] if extra_ids else 2 + j), "file": "extra%d.jbkc" % j, "comp": rng.choice(["none", "zstd", "lz4"]), "level": 1, "ops": []}
              for j in range(n_extras)]
    for j in range(n):
        size = rng.choice(sizes) if sizes else (rng.choice([0, 1, 5, 40, 200, 700]) if not big else rng.choice([100, 5000, 70000, 300000]))
        op = {"cid": cid * 1000 + j, "size": size, "cls": rng.choice(["low", "rand", "zero"]),
              "hint": rng.choice(["yes", "no", "detect"]) if mixed_hints else "detect"}
        if extras and rng.random() < 0.5:
            p = rng.randrange(len(extras))
            extras[p]["ops"].append(op)
            ref = [p + 1, len(extras[p]["ops"]) - 1]
        else:
            ops.append(op)
            ref = [0, len(ops) - 1]
        var = "file" if j % 3 != 2 else "link"
        vals = {"name": {"a": list(b"entry-%04d" % j)}, "size": {"u": size}}
        if var == "file":
            vals["blob"] = {"cx": ref}
            vals["kind"] = {"s": -j}
        else:
            vals["extra"] = {"a": list(b"-> entry-%04d" % (j // 2))}
            # the content still exists in its pack, just not referenced
        entries.append({"variant": var, "values": vals})
    for ex in extras:
        if not ex["ops"]:
            ex["ops"].append({"cid": cid * 1000 + 900 + ex["pack_id"], "size": 33, "cls": "low", "hint": "detect"})
    dirpack = {"id": "d", "dir": "", "stores": ["plain", "indexed"],
               "schema": {"common": [{"name": "name", "type": "array", "prefix": rng.choice([0, 2, 6]), "store": 0},
                                     {"name": "size", "type": "uint"}],
                          "variants": [{"name": "file", "props": [{"name": "blob", "type": "content"}, {"name": "kind", "type": "sint"}]},
                                       {"name": "link", "props": [{"name": "extra", "type": "array", "prefix": 1, "store": 1}]}],
                          "sort": None},
               "entries": entries,
               "indexes": [{"name": "main", "offset": 0, "count": n}] + ([{"name": "tail", "offset": n // 2, "count": n - n // 2}] if n > 1 else [])}
    return {"kind": "container", "id": "c%d" % cid, "out": "c%d.jbk" % cid, "concat": concat, "comp": comp, "level": level,
            "ops": ops, "extras": extras, "dirpack": dirpack}


def dump_request(scn, file, did=None):
    props = []
    sch = scn["dirpack"]["schema"]
    for p in sch["common"] + [q for v in sch["variants"] for q in v["props"]]:
        if p["name"] not in props:
            props.append(p["name"])
    return {"kind": "dump", "id": did or ("dump_" + scn["id"]), "file": file,
            "indexes": [ix["name"] for ix in scn["dirpack"]["indexes"]], "props": props,
            "packs": [1] + [ex["pack_id"] for ex in scn.get("extras", [])]}


def _b3hex(data):
    return b3.blake3(data).hex() if len(data) < (1 << 18) else None


def expected_dump(scn):
    """the logical content of the container, from the scenario alone"""
    packs = {1: scn["ops"]}
    for ex in scn.get("extras", []):
        packs[ex["pack_id"]] = ex["ops"]
    pack_ids = [1] + [ex["pack_id"] for ex in scn.get("extras", [])]
    d = scn["dirpack"]
    entries = []
    for e in d["entries"]:
        vals = {}
        for n, v in e["values"].items():
            if "cx" in v:
                p, k = v["cx"]
                v = {"c": [pack_ids[p], k]}
            vals[n] = v
        entries.append({"variant": e.get("variant"), "values": vals})
    idxs = []
    for ix in d["indexes"]:
        idxs.append({"name": ix["name"], "res": "ok", "count": ix["count"], "offset": ix["offset"],
                     "entries": entries[ix["offset"]:ix["offset"] + ix["count"]]})
    contents = []
    for pid in pack_ids:
        items = []
        for op in packs[pid]:
            data = jbkgen.content(op["cid"], op["size"], op.get("cls", "low"))
            items.append({"res": "ok", "size": len(data), "b3": _b3hex(data)})
        contents.append({"pack": pid, "res": "ok", "count": len(items), "items": items})
    return {"packCount": len(pack_ids) + 1, "indexes": idxs, "contents": contents, "check": True}


def norm_entry(e):
    if "values" not in e:
        return e
    r = {"variant": e.get("variant"), "values": e["values"]}
    if "typed" in e:
        r["typed"] = e["typed"]
    return r


def flatten(dump):
    """{path: value} of every item of a dump, so that two dumps can be compared item by item"""
    out = {}
    if dump is None:
        return out
    out["packCount"] = dump.get("packCount")
    for ix in dump.get("indexes", []):
        b = "index/%s" % ix.get("name")
        out[b + "/res"] = ix.get("res")
        # what the typed property builders return (real dumps only), whether or not the generic builder could be made
        for i, t in enumerate(ix.get("typedEntries", []), ix.get("entriesFrom", 0)):
            if isinstance(t, dict) and "panic" not in t:
                for n, v in t.items():
                    out["%s/%d/typed/%s" % (b, i, n)] = "ERR" if isinstance(v, str) else json.dumps(v, sort_keys=True)
            else:
                out["%s/%d/typed" % (b, i)] = "ERR"
        if ix.get("res") == "ok":
            out[b + "/count"] = ix.get("count")
            out[b + "/offset"] = ix.get("offset")
            for i, e in enumerate(ix.get("entries", []), ix.get("entriesFrom", 0)):
                e = norm_entry(e)
                if "values" in e:
                    out["%s/%d/variant" % (b, i)] = e["variant"]
                    for n, v in e["values"].items():
                        out["%s/%d/%s" % (b, i, n)] = json.dumps(v, sort_keys=True)
                else:
                    out["%s/%d" % (b, i)] = "ERR" if "err" in e else json.dumps(e, sort_keys=True)
    for pk in dump.get("contents", []):
        b = "pack/%s" % pk.get("pack")
        out[b + "/res"] = pk.get("res")
        if pk.get("res") == "ok":
            out[b + "/count"] = pk.get("count")
            for i, it in enumerate(pk.get("items", [])):
                out["%s/%d/res" % (b, i)] = it.get("res")
                if it.get("res") == "ok":
                    out["%s/%d/size" % (b, i)] = it.get("size")
                    out["%s/%d/bytes" % (b, i)] = it.get("b3")
        elif pk.get("res") == "missing":
            out[b + "/missing"] = pk.get("uuid")
    out["check"] = dump.get("check") if isinstance(dump.get("check"), bool) else "ERR"
    return out


def diff(expected, got):
    """list of (path, expected, got) where the dumps differ (b3 None = not computed -> skipped)"""
    fe, fg = flatten(expected), flatten(got)
    res = []
    for k in sorted(set(fe) | set(fg)):
        a, b = fe.get(k, "<absent>"), fg.get(k, "<absent>")
        if k.endswith("/bytes") and (a is None or b is None):
            continue
        if "/typed/" in k and k not in fe:
            # the expected side is computed from the scenario: what the typed builders return must be what the generic builder returns
            a = fg.get(k.replace("/typed/", "/"), "<absent>")
            if a == "<absent>":
                continue            # (the generic builder gave nothing to compare with: judged elsewhere)
        if a != b:
            res.append((k, a, b))
    return res
