"""C02 (entries read back with the values written), and the shared machinery of C03 / C15 / C14:
directory-pack scenarios, annotation with the independently decoded layout, trace events."""
import json
import os
import random
import shutil
import time

import common as C
import jbkdec

U64 = (1 << 64) - 1
UMAP = {0: 0, 3: 255, 4: 256, 15: 65535, 16: 65536, 63: U64}
SMAP = {0: 0, 1: 127, -1: -1, 2: 128, -2: -128, -3: -129, 7: 32767, 8: 32768, -8: -32768, -9: -32769,
        31: (1 << 63) - 1, -32: -(1 << 63)}
UBOUND = [0, 1, 127, 128, 255, 256, 65535, 65536, (1 << 24) - 1, 1 << 24, (1 << 32) - 1, 1 << 32, (1 << 40), (1 << 48) - 1,
          (1 << 56), (1 << 63) - 1, 1 << 63, U64]
SBOUND = [0, 1, -1, 127, 128, -128, -129, 255, 256, 32767, 32768, -32768, -32769, (1 << 23) - 1, 1 << 23, -(1 << 23), -(1 << 23) - 1,
          (1 << 31) - 1, 1 << 31, -(1 << 31), -(1 << 31) - 1, (1 << 39), -(1 << 47) - 1, (1 << 55), (1 << 63) - 1, -(1 << 63)]


def enc(v):
    if "uw" in v:
        v = {"u": v["uw"]}
    if "sw" in v:
        v = {"s": v["sw"]}
    if "u" in v:
        return {"t": "u", "d": list(int(v["u"]).to_bytes(8, "little"))}
    if "s" in v:
        return {"t": "s", "d": list(int(v["s"]).to_bytes(8, "little", signed=True))}
    if "a" in v:
        return {"t": "a", "d": list(v["a"])}
    if "c" in v:
        return {"t": "c", "d": list(int(v["c"][0]).to_bytes(2, "little")) + list(int(v["c"][1]).to_bytes(4, "little"))}
    raise ValueError(v)


def enc_dec(v):
    """value as the independent decoder reports it -> trace encoding"""
    if v["t"] == "u":
        return {"t": "u", "d": list((v["v"] & U64).to_bytes(8, "little"))}
    if v["t"] == "s":
        return {"t": "s", "d": list(int(v["v"]).to_bytes(8, "little", signed=True))}
    if v["t"] == "a":
        return {"t": "a", "d": list(v["v"])}
    if v["t"] == "c":
        return {"t": "c", "d": list(int(v["pack"]).to_bytes(2, "little")) + list(int(v["idx"]).to_bytes(4, "little"))}
    raise ValueError(v)


# ------------------------------------------------------------------ scenario generation
def digits_to_int(d, signed):
    v = d[0] + 4 * d[1] + 16 * d[2]
    if signed and v >= 32:
        v -= 64
    return v


def scn_from_mc(beh, k, cfgname):
    """a final state of MC_EntryStore -> a scenario for the real creator"""
    prefix, kind = beh["prefix"], beh["kind"]
    entries = []
    for e in beh["entries"]:
        lazy = (k + len(entries)) % 3 == 0
        vals = {"u": {"uw" if lazy else "u": UMAP[digits_to_int(e["u"], False)]},
                "s": {"sw" if lazy else "s": SMAP[digits_to_int(e["s"], True)]},
                "a": {"a": [0xFF if b else 0x00 for b in e["a"]]}}
        if e["v"] == 0:
            vals["y"] = {"u": UMAP[digits_to_int(e["y"], False)]}
            vals["x"] = {"u": UMAP[digits_to_int(e["x"], False)]}
        entries.append({"variant": "V0" if e["v"] == 0 else "V1", "values": vals})
    n = len(entries)
    return {"kind": "entries", "id": "m%s%d" % (cfgname[0], k), "stores": [kind],
            "schema": {"common": [{"name": "u", "type": "uint"}, {"name": "s", "type": "sint"},
                                  {"name": "a", "type": "array", "prefix": prefix, "store": 0}],
                       "variants": [{"name": "V0", "props": [{"name": "y", "type": "uint"}, {"name": "x", "type": "uint"}]},
                                    {"name": "V1", "props": []}],
                       "sort": None},
            "entries": entries, "indexes": [{"name": "main", "offset": 0, "count": n}],
            "origin": "tlc:" + cfgname, "expect": "ok"}


def rand_value(rng, typ, nentries, arr_pool):
    if typ == "uint":
        # eager (Value::Unsigned) or lazy (Value::UnsignedWord) form of the same value
        return {rng.choice(["u", "u", "u", "uw"]): rng.choice(UBOUND) if rng.random() < 0.7 else rng.randrange(0, 1 << rng.choice([8, 16, 32, 64]))}
    if typ == "sint":
        return {rng.choice(["s", "s", "sw"]): rng.choice(SBOUND) if rng.random() < 0.7 else rng.randrange(-(1 << 40), 1 << 40)}
    if typ == "content":
        return {"c": [rng.choice([0, 1, 1, 1, 255, 256, 65535]), rng.choice([0, 1, 255, 256, 65535, 65536, (1 << 24) - 1, 1 << 24, (1 << 32) - 1])]}
    if typ == "array":
        return {"a": list(rng.choice(arr_pool))}
    if typ == "ref":
        return {"r": rng.randrange(0, nentries)}
    if typ == "sref":
        return {"rs": rng.randrange(0, nentries)}
    raise ValueError(typ)


def arr_pool(rng, prefix):
    base = [b"", b"\x00", b"\xff", b"a", b"ab", b"abc", b"\x00\x00", b"\xff\xff\xff", b"hello world", b"a" * 31, b"b" * 32, b"c" * 33]
    pool = list(base)
    for ln in (prefix - 1, prefix, prefix + 1, 255, 256, 257):
        if ln >= 0:
            pool.append(bytes(rng.randrange(256) for _ in range(ln)))
            pool.append(b"p" * ln)
    # shared prefixes around the inline prefix length
    stem = bytes(rng.randrange(256) for _ in range(max(prefix, 1)))
    for suf in (b"", b"\x00", b"\xff", b"x", b"xy", b"\x00\x00"):
        pool.append(stem + suf)
        pool.append(stem[:-1] + suf)
    return pool


def random_scn(rng, k, big=False, sorted_p=0.0, refs=False, types=("uint", "sint", "array", "content")):
    nstores = rng.choice([1, 1, 2, 3])
    stores = [rng.choice(["plain", "indexed"]) for _ in range(nstores)]
    names = iter(["p%d" % i for i in range(40)])

    def mk_props(n):
        ps = []
        for _ in range(n):
            t = rng.choice(types + (("ref", "sref") if refs else ()))
            p = {"name": next(names), "type": t}
            if t == "array":
                p["prefix"] = rng.choice([0, 0, 1, 2, 3, 5, 16, 31])
                p["store"] = rng.randrange(nstores)
            ps.append(p)
        return ps
    common = mk_props(rng.choice([0, 1, 2, 3, 4]))
    nvar = rng.choice([0, 0, 1, 2, 3])
    variants = [{"name": "V%d" % i, "props": mk_props(rng.choice([0, 1, 2, 3]))} for i in range(nvar)]
    if not common and not any(v["props"] for v in variants):
        common = mk_props(1)
    n = rng.choice([0, 1, 2, 3, 5, 10, 60]) if not big else rng.choice([300, 800, 1500])
    pools = {}
    # columns that stay constant (default encoding) or vary
    const_cols = {}
    allprops = common + [p for v in variants for p in v["props"]]
    for p in allprops:
        if p["type"] == "array":
            pools[p["name"]] = arr_pool(rng, p["prefix"])
        if p["type"] not in ("ref", "sref") and rng.random() < 0.3:
            const_cols[p["name"]] = rand_value(rng, p["type"], max(n, 1), pools.get(p["name"]))
    entries = []
    for j in range(n):
        var = rng.choice(variants) if variants else None
        vals = {}
        for p in common + (var["props"] if var else []):
            if p["name"] in const_cols:
                vals[p["name"]] = const_cols[p["name"]]
            else:
                vals[p["name"]] = rand_value(rng, p["type"], n, pools.get(p["name"]))
        entries.append({"variant": var["name"] if var else None, "values": vals})
    sort = None
    if rng.random() < sorted_p:
        cand = [p for p in common if p["type"] in ("uint", "sint", "array") and p["name"] not in const_cols]
        if cand:
            key = rng.choice(cand)
            sort = [key["name"]]
            # key *sets*: make the sort key unique across entries
            seen = set()
            uniq = []
            for e in entries:
                kv = json.dumps(enc(e["values"][key["name"]]), sort_keys=True)     # the value, whatever its form (eager / lazy)
                if kv in seen:
                    continue
                seen.add(kv)
                uniq.append(e)
            entries = uniq
            n = len(entries)
            for e in entries:
                for nm, v in e["values"].items():
                    if "r" in v:
                        v["r"] = v["r"] % max(n, 1)
                    if "rs" in v:
                        v["rs"] = v["rs"] % max(n, 1)
    indexes = [{"name": "main", "offset": 0, "count": n, "free_data": [rng.randrange(256) for _ in range(rng.choice([0, 4]))],
                "index_key": rng.choice([0, 0, 1, 7, 255])}]
    if n >= 1:
        o = rng.randrange(0, n + 1)
        indexes.append({"name": "sub", "offset": o, "count": rng.randrange(0, n - o + 1), "free_data": [1, 2, 3, 4], "index_key": 2})
        indexes.append({"name": "empty", "offset": rng.randrange(0, n + 1), "count": 0})
    return {"kind": "entries", "id": "s%d" % k, "stores": stores,
            "schema": {"common": common, "variants": variants, "sort": sort},
            "entries": entries, "indexes": indexes, "origin": "random", "expect": "ok",
            "read_stride": 1 if n <= 400 else 7, "free_data": [rng.randrange(256) for _ in range(rng.choice([0, 3, 24]))]}


def directed_scns(tier):
    """scenarios aimed at the boundaries of the policy layout"""
    out = []

    def simple(idn, props, entries, stores=("plain",), variants=(), expect="ok", sort=None):
        out.append({"kind": "entries", "id": idn, "stores": list(stores),
                    "schema": {"common": props, "variants": list(variants), "sort": sort},
                    "entries": entries, "indexes": [{"name": "main", "offset": 0, "count": len(entries)}],
                    "origin": "directed", "expect": expect, "read_stride": 1 if len(entries) < 500 else 97})
    # signed columns: sign-bit boundaries in both directions (F2)
    for i, (a, b) in enumerate([(5, 200), (-200, 3), (127, -128), (128, 0), (-129, 0), (32767, -32768), (32768, -1),
                                ((1 << 63) - 1, -(1 << 63)), (-1, -2), (-1, -129), (0, 0), (-5, -5)]):
        simple("sint%d" % i, [{"name": "z", "type": "sint"}], [{"values": {"z": {"s": a}}}, {"values": {"z": {"s": b}}}])
        simple("sintw%d" % i, [{"name": "z", "type": "sint"}], [{"values": {"z": {"sw": a}}}, {"values": {"z": {"sw": b}}}])
        simple("sintm%d" % i, [{"name": "z", "type": "sint"}], [{"values": {"z": {"s": a}}}, {"values": {"z": {"sw": b}}}, {"values": {"z": {"sw": 1}}}])
    # unsigned width boundaries
    for i, v in enumerate([255, 256, 65535, 65536, (1 << 56) - 1, 1 << 56, U64]):
        simple("uint%d" % i, [{"name": "n", "type": "uint"}], [{"values": {"n": {"u": v}}}, {"values": {"n": {"u": 0}}}])
        simple("uintw%d" % i, [{"name": "n", "type": "uint"}], [{"values": {"n": {"uw": v}}}, {"values": {"n": {"u": 0}}}])
    # variant whose last column is constant while the variant is the largest (F3)
    v2 = [{"name": "A", "props": [{"name": "y", "type": "uint"}, {"name": "x", "type": "uint"}]}, {"name": "B", "props": []}]
    simple("varconst", [{"name": "n", "type": "uint"}],
           [{"variant": "A", "values": {"n": {"u": 1}, "y": {"u": 3}, "x": {"u": 9}}},
            {"variant": "A", "values": {"n": {"u": 2}, "y": {"u": 700}, "x": {"u": 9}}},
            {"variant": "B", "values": {"n": {"u": 3}}}], variants=v2)
    # array length-width boundaries, prefix boundaries, both store kinds
    for kind in ("plain", "indexed"):
        for pre in (0, 1, 2, 3, 31):
            for ln in ([255, 256, 65535, 65536] if tier == "thorough" else [255, 256]):
                simple("arr_%s_%d_%d" % (kind, pre, ln), [{"name": "a", "type": "array", "prefix": pre, "store": 0}],
                       [{"values": {"a": {"a": [(i * 7 + j) % 256 for i in range(ln)]}}} for j in range(2)] + [{"values": {"a": {"a": []}}}],
                       stores=(kind,))
    # value-store id width boundary: > 255 distinct values (indexed) / > 255 bytes (plain)
    for kind in ("plain", "indexed"):
        simple("ids_%s" % kind, [{"name": "a", "type": "array", "prefix": 0, "store": 0}],
               [{"values": {"a": {"a": [j % 256, j // 256, 7]}}} for j in range(300)], stores=(kind,))
    # values that are strict prefixes of values stored earlier (and the empty value), added once the store holds more than
    # 1024 distinct values (the indexed store then looks for duplicates in parallel): every value keeps its own length
    for kind in ("plain", "indexed"):
        for pre in (0, 2):
            vals = [list(b"value-%05d-x" % j) for j in range(1100)] + [list(b"value-%05d" % j) for j in range(0, 1100, 37)] + [[], list(b"value-"), list(b"v")]
            simple("prefixes_%s_%d" % (kind, pre), [{"name": "a", "type": "array", "prefix": pre, "store": 0}, {"name": "n", "type": "uint"}],
                   [{"values": {"a": {"a": v}, "n": {"u": j}}} for j, v in enumerate(vals)], stores=(kind,))
    # many entries: entry count boundaries and the parallel paths
    simple("many", [{"name": "n", "type": "uint"}, {"name": "a", "type": "array", "prefix": 2, "store": 0}],
           [{"values": {"n": {"u": j * 1000003 % (1 << 40)}, "a": {"a": list(b"k%06d" % j)}}} for j in range(1200 if tier == "quick" else 70000)],
           stores=("plain",))
    # references between entries of a sorted store: the largest referenced position crosses a width boundary only once sorted
    for n_, nref in ((400, 60), (300, 300), (70000 if tier == "thorough" else 1200, 50)):
        ents = [{"values": {"k": {"u": (n_ - j) * 5}, "lnk": {"r": j % nref}, "n": {"u": j}}} for j in range(n_)]
        out.append({"kind": "entries", "id": "refsort%d" % n_, "stores": ["plain"],
                    "schema": {"common": [{"name": "k", "type": "uint"}, {"name": "lnk", "type": "ref"}, {"name": "n", "type": "uint"}], "variants": [], "sort": ["k"]},
                    "entries": ents, "indexes": [{"name": "main", "offset": 0, "count": n_}], "origin": "directed", "expect": "ok",
                    "read_stride": 1 if n_ <= 400 else 37})
    # many indexes over one store (get_index_from_name walks them), windows of every kind, index keys and free data
    ents = [{"values": {"n": {"u": j * j}}} for j in range(40)]
    idxs = []
    for j in range(60):
        o = (j * 7) % 41
        idxs.append({"name": "idx-%02d-%s" % (j, "x" * (j % 9)), "offset": o, "count": (j * 3) % (41 - o), "free_data": [j, 0, 255, j ^ 0x5A], "index_key": j % 256})
    out.append({"kind": "entries", "id": "manyidx", "stores": ["plain"], "schema": {"common": [{"name": "n", "type": "uint"}], "variants": [], "sort": None},
                "entries": ents, "indexes": idxs, "origin": "directed", "expect": "ok", "read_stride": 1})
    # an indexed value store whose tail (one offset per value) is just below / beyond the 16-bit size of a tail (F4):
    # below, it reads back exactly; beyond, creation must fail or the store must read back exactly
    simple("bigtail_fits", [{"name": "a", "type": "array", "prefix": 0, "store": 0}],
           [{"values": {"a": {"a": list(b"%05d" % j)}}} for j in range(21800)], stores=("indexed",))
    simple("bigtail", [{"name": "a", "type": "array", "prefix": 0, "store": 0}],
           [{"values": {"a": {"a": list(b"%05d" % j)}}} for j in range(21900 if tier == "quick" else 33000)], stores=("indexed",), expect="any")
    return out


# ------------------------------------------------------------------ annotate
def layout_event(es, sid):
    props = []

    def conv(pr, vname):
        k = pr["kind"]
        if k in ("pad", "variantid"):
            return None
        e = {"name": pr["name"], "kind": k, "variant": vname, "hasDefault": pr.get("default") is not None,
             "width": 0, "lenWidth": 0, "prefix": 0, "idWidth": 0, "packWidth": 0, "default": []}
        if k in ("uint", "sint"):
            e["width"] = pr["width"]
            if e["hasDefault"]:
                e["default"] = list(int(pr["default"]).to_bytes(8, "little", signed=(k == "sint")))
        elif k == "content":
            e["packWidth"], e["idWidth"] = pr["packWidth"], pr["idWidth"]
            if e["hasDefault"]:
                e["default"] = list(int(pr["default"]).to_bytes(2, "little"))
        elif k == "array":
            e["lenWidth"], e["prefix"], e["idWidth"] = pr["lenWidth"], pr["prefix"], pr["idWidth"]
        else:
            e["kind"] = "other"
        return e
    for pr in es["common"]:
        c = conv(pr, "")
        if c:
            props.append(c)
    for vn, vp in zip(es["variantNames"], es["variants"]):
        for pr in vp:
            c = conv(pr, vn)
            if c:
                props.append(c)
    return {"ev": "Layout", "scn": sid, "entrySize": es["entrySize"], "count": es["count"],
            "commonSize": sum(x["size"] for x in es["common"]),
            "variantSizes": es.get("variantSizes", []), "props": props}


def esig(s):
    sch = s["schema"]

    def ps(props):
        return ",".join("%s%s" % (p["type"][0], (":%d%s" % (p.get("prefix", 0), s["stores"][p.get("store", 0)][0])) if p["type"] == "array" else "") for p in props)
    return "schema=[%s|%s]%s n=%d stores=%s" % (ps(sch["common"]), ";".join(ps(v["props"]) for v in sch["variants"]),
                                                 " sorted" if sch.get("sort") else "", len(s["entries"]), "".join(x[0] for x in s["stores"]))


def annotate(s, run, want_dec=False):
    evs, problems = [], []
    hv = run["events"]
    sid = s["id"]
    fin = next((e for e in hv if e["ev"] == "Finalize"), None)
    desc = {"scn": slim(s)}
    if run["status"] != "ok":
        site = next((e.get("site", "") for e in reversed(hv) if e["ev"] == "PanicSite"), "")
        phase = "create" if fin is None else "read"
        problems.append(("%s %s site=%s %s" % (phase, run["status"], site, esig(s)), dict(desc, stderr=run.get("stderr"), last=hv[-3:])))
        return evs, problems
    if fin is None or not fin.get("ok"):
        if s.get("expect") != "any":
            problems.append(("create failed site=%s %s" % ((fin or {}).get("site", ""), esig(s)), dict(desc, finalize=fin)))
        return evs, problems
    rp = next((e for e in hv if e["ev"] in ("ReadPanic", "ReadError")), None)
    if rp is not None:
        problems.append(("read %s: %s site=%s %s" % (rp["ev"], (rp.get("err") or rp.get("panic") or "")[:60], rp.get("site", ""), esig(s)),
                         dict(desc, read=rp)))
    handles = next((e["pos"] for e in hv if e["ev"] == "Handles"), None)
    dec = jbkdec.decode_file(fin["file"], check_hash=False)
    pk = next((p for p in jbkdec.all_packs(dec) if p["kind"] == "d"), None)
    bad = [v for v in dec["violations"]]
    if pk is None or not pk.get("entryStores") or not pk["entryStores"][0].get("ok") or bad:
        problems.append(("layout %s %s" % ((bad or [{"rule": "no-directory-pack"}])[0]["rule"], esig(s)), dict(desc, layout=bad[:5])))
        return evs, problems
    es = pk["entryStores"][0]
    evs.append({"ev": "Scn", "scn": sid, "sortKeys": s["schema"].get("sort") or []})
    many = []
    for j, e in enumerate(s["entries"]):
        vals = {}
        for n, v in e["values"].items():
            if "r" in v:
                v = {"u": handles[v["r"]] if handles and v["r"] < len(handles) else 0}
            elif "rs" in v:
                v = {"s": handles[v["rs"]] if handles and v["rs"] < len(handles) else 0}
            vals[n] = enc(v)
        if len(s["entries"]) > 200:
            many.append({"variant": e.get("variant") or "", "values": vals})
        else:
            evs.append({"ev": "Entry", "scn": sid, "j": j, "variant": e.get("variant") or "", "values": vals})
    if many:
        evs.append({"ev": "Entries", "scn": sid, "entries": many})
    evs.append({"ev": "Finalize", "scn": sid})
    hp = handles or []
    inv = [0] * len(hp)
    for j, p_ in enumerate(hp):
        if 0 <= p_ < len(inv):
            inv[p_] = j + 1
    evs.append({"ev": "Handles", "scn": sid, "pos": hp, "inv": inv})
    evs.append(layout_event(es, sid))
    decl = {ix["name"]: ix for ix in s["indexes"]}
    for e in hv:
        if e["ev"] == "Index":
            d = decl[e["name"]]
            evs.append({"ev": "Index", "scn": sid, "name": e["name"], "res": e["res"], "count": e.get("count", -1),
                        "offset": e.get("offset", -1), "declCount": d["count"], "declOffset": d["offset"]})
        elif e["ev"] == "Read":
            r = {"ev": "Read", "scn": sid, "index": e["index"], "i": min(e["i"], 2 ** 31 - 1), "res": e["res"], "variant": "", "values": {}, "typed": "same"}
            if e["res"] == "ok" and "entry" in e:
                r["typed"] = e.get("typed", "same")     # the typed property builders against the generic one
                r["variant"] = e["entry"]["variant"] or ""
                r["values"] = {n: enc(v) for n, v in e["entry"]["values"].items()}
            evs.append(r)
        elif e["ev"] == "Check" and e["res"] is not True:
            problems.append(("check of a fresh directory pack is %s %s" % (e["res"], esig(s)), dict(desc, check=e)))
    if want_dec:
        stride = max(s.get("read_stride", 1), 1)
        for p_, de in enumerate(es["_entries"]):
            if p_ % stride:
                continue
            vn = es["variantNames"][de["variant"]] if de["variant"] is not None else ""
            evs.append({"ev": "Dec", "scn": sid, "p": p_, "variant": vn, "values": {n: enc_dec(v) for n, v in de["values"].items()}})
    return evs, problems


def slim(s):
    d = {k: v for k, v in s.items() if k not in ("behaviour", "dir")}
    if len(d.get("entries", [])) > 12:
        d = dict(d, entries=d["entries"][:12] + ["... %d entries" % len(s["entries"])])
    return d


TRACE_CFG = """CONSTANTS
  Radix = 256
  NDigits = 8
  SignedRule = "minmax"
SPECIFICATION TraceSpec
INVARIANT Done
POSTCONDITION TraceAccepted
CHECK_DEADLOCK FALSE
"""


def mc_cfg(name, max_entries, signed_rule="minmax", reader_rule="marker", prefix=None, kind=None):
    base = open(os.path.join(C.SPEC, "MC_EntryStore_%s.cfg" % name)).read()
    import re
    base = re.sub(r"MaxEntries = \d+", "MaxEntries = %d" % max_entries, base)
    base = base.replace('SignedRule = "minmax"', 'SignedRule = "%s"' % signed_rule)
    base = base.replace('ReaderRule = "marker"', 'ReaderRule = "%s"' % reader_rule)
    if prefix is not None:
        base = re.sub(r"Prefix = \d+", "Prefix = %d" % prefix, base)
    if kind is not None:
        base = re.sub(r'StoreKind = "\w+"', 'StoreKind = "%s"' % kind, base)
    base = base.replace("INVARIANTS ", "INVARIANTS Replay ")
    return base


def run_and_validate(rep, prop, tier, scns, binary, want_dec=False, module="EntryStoreTrace", cfg=TRACE_CFG, extra=None):
    """runs scenarios, annotates, validates; `extra(s, run, evs)` may append property-specific events/problems"""
    base = os.path.join(C.WORK, "run_%s" % prop)
    shutil.rmtree(base, ignore_errors=True)
    os.makedirs(base)
    for s in scns:
        s["dir"] = os.path.join(base, s["id"])
    all_events, nscn, nontrivial = [], 0, set()
    batch = 120
    for i in range(0, len(scns), batch):
        chunk = scns[i:i + batch]
        runs = C.run_scenarios(binary, [{k: v for k, v in s.items() if k != "behaviour"} for s in chunk],
                               "%s_b%d" % (prop, i), timeout=900 if tier == "quick" else 3600)
        for s in chunk:
            r = runs.get(s["id"], {"events": [], "status": "crash:notrun"})
            evs, problems = annotate(s, r, want_dec=want_dec)
            if extra and evs:
                extra(s, r, evs, problems)
            for sig, detail in problems:
                rep.violation("%s %s" % (prop, sig), detail)
            if evs:
                all_events += evs
                nscn += 1
                if len(s["entries"]) >= 2:
                    nontrivial.add(esig(s) + json.dumps(s["entries"][:3], sort_keys=True)[:200])
                if len(rep.cov["samples"]) < 3 and 2 <= len(s["entries"]) <= 4:
                    rep.cov["samples"].append({"scenario": slim(s), "trace": evs[:10]})
            shutil.rmtree(s["dir"], ignore_errors=True)
    C.log("[%s] %d scenarios run %.0fs" % (prop, len(scns), time.time() - rep.t0))
    validate_all(rep, prop, scns, all_events, module, cfg)
    rep.cov["traces_validated_against_impl"] = nscn
    rep.cov["trace_events"] = len(all_events)
    rep.cov["evaluations"] = len(scns)
    rep.cov["distinct_nontrivial"] = len(nontrivial)
    shutil.rmtree(base, ignore_errors=True)


def validate_all(rep, prop, scns, all_events, module, cfg, sigf=None):
    """trace validation; after a rejection the offending scenario is cut out and the rest is
    still validated (bounded number of rounds)"""
    events = all_events
    for rnd in range(6):
        tv = C.validate_trace(module, cfg, "%s_%s_%d" % (module, prop, rnd), events, timeout=3000)
        rep.add_tlc(tv, "%s round %d" % (module, rnd))
        if tv.get("drift"):
            rep.drift("%d scenario(s) depart from the policy level of %s" % (tv["drift"], module))
        if tv["accepted"]:
            return
        ev = tv.get("rejected_event") or {}
        sid = ev.get("scn")
        s = next((x for x in scns if x["id"] == sid), None)
        short = {k: (v if len(json.dumps(v)) < 160 else "...") for k, v in ev.items() if k not in ("scn", "values")}
        sig = "%s trace rejected at %s %s" % (prop, ev.get("ev"), json.dumps(short, sort_keys=True)[:300])
        if s is not None:
            sig += " " + (sigf(s) if sigf else esig(s))
        rep.violation(sig, {"scenario": slim(s) if s else None, "rejected": ev, "matched": tv["matched"],
                            "events": [e for e in events if e.get("scn") == sid][:120]})
        events = [e for e in events if e.get("scn") != sid]
        if not events:
            return
    rep.violation("%s more than 6 scenarios rejected" % prop, {})


def design_level(rep, tier):
    """exhaustive configurations of EntryStore; returns scenarios derived from their final states"""
    scns = []
    runs = [("ints", 2 if tier == "quick" else 3, None, None), ("variants", 3, None, None)]
    for pre in (0, 1, 2):
        for kind in ("plain", "indexed"):
            runs.append(("arrays", 2 if tier == "quick" else 3, pre, kind))
    for name, me, pre, kind in runs:
        tag = "MC_EntryStore_%s%s" % (name, "" if pre is None else "_%d%s" % (pre, kind[0]))
        r = C.tlc("MC_EntryStore", mc_cfg(name, me, prefix=pre, kind=kind), tag, timeout=1500)
        rep.add_tlc(r, tag)
        if not r["ok"]:
            rep.violation("design: MC_EntryStore(%s) violates %s" % (name, r["violated"]), {"tlc": r.get("out", "")[-3000:]})
        for line in r["replay"]:
            b = C.unjson(line)
            scns.append((tag, b))
    return scns


def run(prop, tier):
    rep = C.Report(prop, tier)
    rng = random.Random(C.SEED * 104729 + 2)
    binary = C.build("debug")
    mc = design_level(rep, tier)
    C.log("[%s] design level done %.0fs (%d behaviours)" % (prop, time.time() - rep.t0, len(mc)))
    rng.shuffle(mc)
    scns = []
    cap = 250 if tier == "quick" else 4000
    for k, (tag, b) in enumerate(mc[:cap]):
        scns.append(scn_from_mc(b, k, tag.replace("MC_EntryStore_", "")))
    nrand = 120 if tier == "quick" else 2500
    for k in range(nrand):
        scns.append(random_scn(rng, k, big=(k % 40 == 39), sorted_p=0.15, refs=(k % 4 == 0)))
    scns += directed_scns(tier)
    run_and_validate(rep, prop, tier, scns, binary)
    rep.cov["rule"] = ("scenarios = final states of the exhaustive configurations of MC_EntryStore (integer / array / variant columns, "
                       "mapped to Radix-256 boundary values; capped sample) + seeded random schemas (0-4 common properties, 0-3 variants, "
                       "plain/indexed stores shared or not, prefix 0..31, constant and varying columns, windows) + directed boundary scenarios; "
                       "distinct = different (schema shape, first entries); non-trivial = at least 2 entries")
    rep.assumptions += ["the independent decoder reports the layout found in the bytes truthfully",
                        "positions of a store are taken from the handles (checked to be a permutation; C15 checks them against the reader)"]
    return rep.finish()
