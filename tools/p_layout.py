"""C14: written bytes follow the documented layout (independent decoder + Layout.tla relations);
the decoder recovers exactly the logical content written; reference containers of the pinned
version keep reading to the same logical content with the current reader."""
import json
import os
import random
import shutil
import time

import common as C
import jbkdec
import logical as L
import p_content as PC
import p_entries as PE

LAYOUT_CFG = """CONSTANTS
  Radix = 256
SPECIFICATION TraceSpec
INVARIANT Done
POSTCONDITION TraceAccepted
CHECK_DEADLOCK FALSE
"""
HEADER_KIND = {"c": "ContentPackHeader", "d": "DirectoryPackHeader", "m": "ManifestPackHeader", "C": "ContainerPackHeader"}


def layout_events(path, sid, legacy_ok=False):
    """File / Pack / Block / Ptr / Data / Counts / Locator events of one file; returns (events, violations)"""
    dec = jbkdec.decode_file(path, check_hash=True)
    evs = [{"ev": "File", "scn": sid, "path": os.path.basename(path), "size": dec["size"]}]
    packs = jbkdec.all_packs(dec)
    viol = [v for v in dec["violations"] if not (legacy_ok and v["rule"] == "pack-size-relation")]
    locs = []
    for pid, pk in enumerate(packs):
        base = pk["offset"]
        hdr = next((b for b in pk["blocks"] if b["kind"] == "PackHeader"), None)
        legacy = legacy_ok and pk["kind"] == "C" and not pk.get("sizeRelation", True)
        evs.append({"ev": "Pack", "scn": sid, "id": pid, "kind": pk["kind"], "uuid": pk["uuid"], "base": base, "packSize": pk["packSize"],
                    "checkInfoPos": pk["checkInfoPos"], "checkSize": 37 if pk.get("checkKind") == "blake3" else 5,
                    "headerCrc": bool(hdr and hdr["crc"]), "major": pk["major"], "minor": pk["minor"], "tailMirror": bool(pk.get("tailMirror")),
                    "checkOk": pk.get("checkOk") is True, "fileSize": dec["size"] + (0 if not legacy else 0), "legacy": legacy,
                    "reservedZero": not (pk["pad1"].strip("0") or pk["pad2"].strip("0"))})
        for b in sorted(pk["blocks"], key=lambda b: (b["begin"], b["end"])):
            evs.append({"ev": "Block", "scn": sid, "pack": pid, "kind": b["kind"], "begin": b["begin"], "end": b["end"], "size": b["size"],
                        "crc": "none" if b["crc"] is None else ("ok" if b["crc"] else "bad")})

        def ptr(kind, off, size):
            evs.append({"ev": "Ptr", "scn": sid, "pack": pid, "kind": kind, "offset": base + off, "size": size})
        ptr("PackHeader", 0, 60)
        ptr(HEADER_KIND[pk["kind"]], 64, 60)
        ptr("Check", pk["checkInfoPos"], 33 if pk.get("checkKind") == "blake3" else 1)
        eq = []
        if pk["kind"] == "c" and "clusters" in pk:
            ptr("ClusterPtrArray", pk["clusterPtrPos"], 8 * pk["clusterCount"])
            ptr("ContentInfoArray", pk["contentPtrPos"], 4 * pk["contentCount"])
            for c in pk["clusters"]:
                if not c.get("ok"):
                    continue
                evs.append({"ev": "Data", "scn": sid, "pack": pid, "dataKind": "ClusterData", "dataBegin": base + c["dataPos"], "dataSize": c["rawSize"],
                            "dataEnd": base + c["dataPos"] + c["rawSize"], "tailKind": "ClusterTail", "tailPos": base + c["tailPos"], "tailSize": c["tailSize"],
                            "width": c["offWidth"], "values": [c["rawSize"], c["dataSize"]], "widthMinimal": c["widthMinimal"]})
                eq.append([c["tailSize"], 4 + c["offWidth"] * (1 + max(c["blobs"], 1))])
        elif pk["kind"] == "d" and "indexes" in pk:
            ptr("IndexPtrArray", pk["indexPtrPos"], 8 * pk["indexCount"])
            ptr("ValueStorePtrArray", pk["valueStorePtrPos"], 8 * pk["valueStoreCount"])
            ptr("EntryStorePtrArray", pk["entryStorePtrPos"], 8 * pk["entryStoreCount"])
            for es in pk["entryStores"]:
                if not es.get("ok"):
                    continue
                dsz = es["count"] * es["entrySize"]
                evs.append({"ev": "Data", "scn": sid, "pack": pid, "dataKind": "EntryStoreData", "dataBegin": base + es["tailPos"] - dsz - 4, "dataSize": dsz,
                            "dataEnd": base + es["tailPos"], "tailKind": "EntryStoreTail", "tailPos": base + es["tailPos"], "tailSize": es["tailSize"],
                            "width": 0, "values": [], "widthMinimal": True})
                eq.append([es["keyCount"], len(es["common"]) + sum(len(v) + 1 for v in es["variants"])])
            for vs in pk["valueStores"]:
                if not vs.get("ok"):
                    continue
                evs.append({"ev": "Data", "scn": sid, "pack": pid, "dataKind": "ValueStoreData", "dataBegin": base + vs["tailPos"] - vs["dataSize"] - 4,
                            "dataSize": vs["dataSize"], "dataEnd": base + vs["tailPos"], "tailKind": "ValueStoreTail", "tailPos": base + vs["tailPos"],
                            "tailSize": vs["tailSize"], "width": vs.get("offWidth", 0), "values": [vs["dataSize"]] if vs["kind"] == "indexed" else [],
                            "widthMinimal": vs.get("widthMinimal", True)})
                if vs["kind"] == "indexed":
                    eq.append([vs["tailSize"], 1 + 8 + 1 + vs["offWidth"] * max(vs["count"], 1)])
                else:
                    eq.append([vs["tailSize"], 9])
        elif pk["kind"] == "m" and "packInfos" in pk:
            n = pk["packCount"]
            for i, pi in enumerate(pk["packInfos"]):
                ptr("PackInfo", pk["checkInfoPos"] - 256 * (n - i), 252)
            eq.append([len(pk["packInfos"]), n])
        elif pk["kind"] == "C" and "locators" in pk:
            eq.append([pk["locatorsPos"] + 36 * pk["packCount"], pk["checkInfoPos"]])
            for i, lc in enumerate(pk["locators"]):
                ptr("PackLocator", pk["locatorsPos"] + 36 * i, 32)
                locs.append({"ev": "Locator", "scn": sid, "uuid": lc["uuid"], "base": base + lc["offset"], "size": lc["size"]})
        evs.append({"ev": "Counts", "scn": sid, "pack": pid, "eq": eq})
    evs += locs
    return evs, viol, dec


def pad(v, n):
    v = list(v or [])[:n]
    return v + [0] * (n - len(v))


def field_events(s, run, path, sid):
    """Fields events: application fields that only an independent decoder can see in full (free data of packs and
    indexes, index key): what the decoder finds and what the reader returns must be what was given"""
    evs = []
    dec = jbkdec.decode_file(path, check_hash=False)
    pk = next((p for p in jbkdec.all_packs(dec) if p["kind"] in ("c", "d")), None)
    if pk is None:
        return evs
    want = pad(s.get("free_data"), 24)
    evs.append({"ev": "Fields", "scn": sid, "what": "pack free data (decoder)", "ok": list(bytes.fromhex(pk["freeData"])) == want})
    rd = next((e["data"] for e in run["events"] if e["ev"] == "FreeData"), None)
    if rd is not None:
        evs.append({"ev": "Fields", "scn": sid, "what": "pack free data (reader)", "ok": list(rd) == want})
    if pk["kind"] == "d":
        decl = {ix["name"]: ix for ix in s["indexes"]}
        for ix in pk.get("indexes", []):
            d = decl.get(ix.get("name"))
            if d is None:
                evs.append({"ev": "Fields", "scn": sid, "what": "index name", "ok": False})
                continue
            evs.append({"ev": "Fields", "scn": sid, "what": "index %s free data / key / window" % ix["name"],
                        "ok": list(bytes.fromhex(ix["freeData"])) == pad(d.get("free_data"), 4) and ix["indexKey"] == d.get("index_key", 0)
                        and ix["count"] == d["count"] and ix["offset"] == d["offset"] and ix["store"] == 0})
    return evs


def conv_value(v):
    if v["t"] == "u":
        return {"u": v["v"]}
    if v["t"] == "s":
        return {"s": v["v"]}
    if v["t"] == "a":
        return {"a": list(v["v"])}
    return {"c": [v["pack"], v["idx"]]}


def decoder_dump(d, scn):
    """the logical content of the container in directory d, recovered by the independent decoder only"""
    by_uuid = {}
    for fn in sorted(os.listdir(d)):
        p = os.path.join(d, fn)
        if not os.path.isfile(p) or fn.endswith(".json"):
            continue
        dec = jbkdec.decode_file(p, check_hash=False)
        for pk in jbkdec.all_packs(dec):
            by_uuid.setdefault(pk["uuid"], pk)
    entry = jbkdec.decode_file(os.path.join(d, scn["out"]), check_hash=False)
    man = next((p for p in jbkdec.all_packs(entry) if p["kind"] == "m"), None)
    if man is None:
        return None
    out = {"packCount": man["packCount"], "indexes": [], "contents": [], "check": True}
    dinfo = next(pi for pi in man["packInfos"] if pi["kind"] == "d")
    dp = by_uuid.get(dinfo["uuid"])
    if dp is None:
        return None
    for ix in dp["indexes"]:
        es = dp["entryStores"][ix["store"]]
        ents = []
        for e in es["_entries"][ix["offset"]:ix["offset"] + ix["count"]]:
            ents.append({"variant": es["variantNames"][e["variant"]] if e["variant"] is not None else None,
                         "values": {n: conv_value(v) for n, v in e["values"].items()}})
        out["indexes"].append({"name": ix["name"], "res": "ok", "count": ix["count"], "offset": ix["offset"], "entries": ents})
    for pi in sorted([pi for pi in man["packInfos"] if pi["kind"] == "c"], key=lambda pi: pi["packId"]):
        cp = by_uuid.get(pi["uuid"])
        if cp is None:
            out["contents"].append({"pack": pi["packId"], "res": "missing", "uuid": pi["uuid"]})
            continue
        cache = {}
        items = []
        for i in range(cp["contentCount"]):
            b = jbkdec.content_bytes(cp, i, cache)
            items.append({"res": "ok", "size": len(b), "b3": L._b3hex(b)})
        out["contents"].append({"pack": pi["packId"], "res": "ok", "count": cp["contentCount"], "items": items})
    return out


def run(prop, tier):
    rep = C.Report(prop, tier)
    rng = random.Random(C.SEED * 553105243 + 14)
    binary = C.build("debug")
    # design level: the width lemmas (Bytes) and the layout written by the policy is re-parsed into the
    # variants written / has every tail field representable (EntryStore, ContentPack)
    for name, module, cfg in [("MC_Bytes", "MC_Bytes", "CONSTANTS\n  Radix = 4\n  Bound = 80\nSPECIFICATION Spec\n"),
                              ("MC_EntryStore_variants", "MC_EntryStore", PE.mc_cfg("variants", 3).replace("Replay ", "")),
                              ("MC_ContentPack_3", "MC_ContentPack", PC.mc_cfg(3, False, replay=False))]:
        r = C.tlc(module, cfg, "%s_C14" % name, timeout=900)
        rep.add_tlc(r, name)
        if not r["ok"]:
            rep.violation("design: %s violates %s" % (name, r["violated"] or r["errors"][:1]), {"tlc": r.get("out", "")[-2000:]})
    events, descs = [], {}
    nontrivial = set()
    n = 0

    def add_world(sid, d, scn, legacy, reader_dump=None, desc=None):
        nonlocal n
        descs[sid] = desc or {"scn": scn["id"]}
        for fn in sorted(os.listdir(d)):
            p = os.path.join(d, fn)
            if not os.path.isfile(p) or fn.endswith(".json") or fn.startswith("in_"):
                continue
            evs, viol, dec = layout_events(p, sid, legacy_ok=legacy)
            for v in viol:
                rep.violation("%s layout %s in %s (%s)" % (prop, v["rule"], fn if legacy else os.path.splitext(fn)[1], json.dumps(descs[sid])[:120]),
                              {"file": p, "violation": v})
            for dr in dec["drift"]:
                rep.drift("%s: %s" % (dr["rule"], "unused or unaccounted bytes between blocks" if dr["rule"] == "tiling-gap" else dr["rule"]))
            events.extend(evs)
        try:
            dd, why = decoder_dump(d, scn), "none"
        except (IndexError, KeyError, ValueError, TypeError, AssertionError, jbkdec.struct.error) as e:
            # what the creator wrote leads the independent decoder outside the file's own tables: the layout is not followed
            dd, why = None, "decoder stopped: %s %s" % (type(e).__name__, str(e)[:80])
        exp = L.expected_dump(scn)
        df = L.diff(exp, dd) if dd is not None else [("decoder", "dump", why)]
        df = [x for x in df if x[0] != "check"]
        events.append({"ev": "Logical", "scn": sid, "who": "decoder", "diffs": len(df), "first": [list(map(str, x)) for x in df[:3]]})
        if reader_dump is not None:
            df2 = L.diff(exp, reader_dump)
            events.append({"ev": "Logical", "scn": sid, "who": "reader", "diffs": len(df2), "first": [list(map(str, x)) for x in df2[:3]]})
        n += 1
        nontrivial.add(json.dumps(descs[sid], sort_keys=True))

    # (2) the committed corpus of the pinned version, read by the current reader
    corpus = os.path.join(C.ROOT, "corpus")
    work = os.path.join(C.WORK, "run_%s" % prop)
    shutil.rmtree(work, ignore_errors=True)
    os.makedirs(work)
    for name in sorted(os.listdir(corpus)):
        src = os.path.join(corpus, name)
        if not os.path.isdir(src):
            continue
        d = os.path.join(work, name)
        shutil.copytree(src, d)
        scn = json.load(open(os.path.join(d, "scenario.json")))
        expected = json.load(open(os.path.join(d, "expected.json")))
        req = L.dump_request(scn, os.path.join(d, scn["out"]), did="corpus_" + name)
        r = C.run_scenarios(binary, [req], "C14_corpus", timeout=120)[req["id"]]
        dm = next((e for e in r["events"] if e["ev"] == "Dump"), None)
        if r["status"] != "ok" or not dm or dm["open"] != "ok":
            rep.violation("%s corpus %s cannot be opened by the current reader: %s" % (prop, name, (dm or {}).get("err", r["status"])[:100]), {"dump": dm})
            rd = {}
        else:
            rd = dm["dump"]
        # the stored expected dump is the ground truth; it must equal what the scenario says
        if L.diff(expected, L.expected_dump(scn)):
            raise C.ToolError("corpus %s: expected.json does not match its scenario" % name)
        add_world("corpus_" + name, d, scn, True, reader_dump=rd, desc={"corpus": name})
        if len(rep.cov["samples"]) < 1:
            rep.cov["samples"].append({"corpus": name, "files": sorted(os.listdir(src)), "reader_diffs": len(L.diff(expected, rd)) if rd else -1})
    C.log("[%s] corpus done %.0fs" % (prop, time.time() - rep.t0))
    # (1) freshly generated containers: every packaging x compression
    combos = [(c, m) for c in ("none", "lz4", "lzma", "zstd") for m in ("one", "two", "none")]
    nper = 1 if tier == "quick" else 12
    k = 0
    for comp, mode in combos:
        for j in range(nper):
            k += 1
            scn = L.make_container(rng, 600 + k, n_extras=rng.choice([0, 1, 2]), comp=comp, concat=mode, big=(j % 4 == 3))
            d = os.path.join(work, "f%d" % k)
            os.makedirs(d)
            r = C.run_scenarios(binary, [dict(scn, dir=d)], "C14_create", timeout=300)[scn["id"]]
            fin = next((e for e in r["events"] if e["ev"] == "Finalize"), None)
            if r["status"] != "ok" or not fin or not fin.get("ok"):
                rep.violation("%s creation failed comp=%s mode=%s" % (prop, comp, mode), {"finalize": fin})
                continue
            add_world("f%d" % k, d, scn, False, desc={"comp": comp, "mode": mode, "extras": len(scn["extras"])})
            if len(rep.cov["samples"]) < 3:
                rep.cov["samples"].append({"fresh": {"comp": comp, "mode": mode}, "events": [e for e in events if e.get("scn") == "f%d" % k][:10]})
            shutil.rmtree(d, ignore_errors=True)
    C.log("[%s] fresh containers done %.0fs" % (prop, time.time() - rep.t0))
    PE.validate_all(rep, prop, [{"id": k_, "desc": v} for k_, v in descs.items()], events, "Layout", LAYOUT_CFG,
                    sigf=lambda s: json.dumps(s["desc"], sort_keys=True))
    # (3) bare packs as C01 / C02 generate them: contents (Verbatim) and entries (Dec) recovered by the decoder
    cscns = [PC.random_scn(rng, i, big=False) for i in range(40 if tier == "quick" else 600)] + PC.long_scns("quick")[:4]
    cscns = [s for s in cscns if s.get("creator", "pack") == "pack"]
    base = os.path.join(work, "bare")
    os.makedirs(base)
    cev, bare_events = [], []
    for s in cscns:
        s["dir"] = os.path.join(base, s["id"])
    runs = C.run_scenarios(binary, cscns, "C14_bare_c", timeout=900)
    for s in cscns:
        evs, problems, pk = PC.annotate(s, runs.get(s["id"], {"events": [], "status": "crash:notrun"}), want_verbatim=True)
        for sig, detail in problems:
            rep.violation("%s %s" % (prop, sig), detail)
        cev += evs
        if evs:
            levs, viol, _ = layout_events(os.path.join(s["dir"], "pack.jbkc"), s["id"])
            for v in viol:
                rep.violation("%s layout %s in a bare content pack comp=%s" % (prop, v["rule"], s["comp"]), {"violation": v})
            bare_events.extend(levs + field_events(s, runs[s["id"]], os.path.join(s["dir"], "pack.jbkc"), s["id"]))
        shutil.rmtree(s["dir"], ignore_errors=True)
    PE.validate_all(rep, prop, cscns, cev, "ContentPackTrace", PC.trace_cfg(True), sigf=PC.opsig)
    escns = [PE.random_scn(rng, i, big=False, sorted_p=0.2) for i in range(40 if tier == "quick" else 600)] + PE.directed_scns("quick")[:20]
    for s in escns:
        s["dir"] = os.path.join(base, "e" + s["id"])
    runs = C.run_scenarios(binary, escns, "C14_bare_e", timeout=900)
    eev = []
    for s in escns:
        evs, problems = PE.annotate(s, runs.get(s["id"], {"events": [], "status": "crash:notrun"}), want_dec=True)
        for sig, detail in problems:
            rep.violation("%s %s" % (prop, sig), detail)
        eev += evs
        dp = os.path.join(s["dir"], "dir.jbkd")
        if evs and os.path.exists(dp):
            levs, viol, _ = layout_events(dp, "e" + s["id"])
            for v in viol:
                rep.violation("%s layout %s in a bare directory pack %s" % (prop, v["rule"], PE.esig(s)), {"violation": v})
            bare_events.extend(levs + field_events(s, runs[s["id"]], dp, "e" + s["id"]))
        shutil.rmtree(s["dir"], ignore_errors=True)
    PE.validate_all(rep, prop, escns, eev, "EntryStoreTrace", PE.TRACE_CFG)
    PE.validate_all(rep, prop, [dict(s, id=("e" + s["id"]) if s["kind"] == "entries" else s["id"]) for s in cscns + escns], bare_events, "Layout", LAYOUT_CFG,
                    sigf=lambda s: (PE.esig(s) + " indexes=" + json.dumps([[i.get("free_data"), i.get("index_key")] for i in s["indexes"]])) if s["kind"] == "entries" else PC.opsig(s))
    rep.cov["traces_validated_against_impl"] = n + len(cscns) + len(escns)
    rep.cov["trace_events"] = len(events) + len(cev) + len(eev)
    rep.cov["evaluations"] = n + len(cscns) + len(escns)
    rep.cov["distinct_nontrivial"] = len(nontrivial) + len(cscns) + len(escns)
    rep.cov["corpus_files"] = sum(len(os.listdir(os.path.join(corpus, x))) - 2 for x in os.listdir(corpus) if os.path.isdir(os.path.join(corpus, x)))
    rep.cov["rule"] = ("worlds = the committed corpus of the pinned version (8 containers: 4 compressions x 3 packagings x 0-2 extra packs, both store kinds, arrays / ints / "
                       "signed ints / content addresses, variants, defaults, sub-range index) read by the current reader + fresh containers for every compression x packaging "
                       "+ bare content and directory packs as C01 / C02 generate them; every file is decoded by the independent decoder, its block map validated by Layout.tla, the "
                       "logical content it recovers compared with what was written; distinct = different world; all non-trivial")
    rep.assumptions += ["tools/jbkdec.py implements the layout of format (0,2) as documented in DESIGN.md Appendix D, independently of the library",
                        "corpus containers declare a container pack size 5 bytes short (pinned-version trait, fixed since): accepted for corpus files only"]
    shutil.rmtree(work, ignore_errors=True)
    return rep.finish()
