"""C13: all views of a stored content agree.  Views.tla exhaustively, TLC-simulated behaviours
replayed on every source kind reachable through the public API, ViewsTrace.tla validating what
each operation returned against the denotation."""
import json
import os
import zlib
import random
import re
import shutil
import subprocess
import time

import common as C
import jbkdec
import jbkgen

SIM_CFG = """CONSTANTS
  N = 6
  MaxViews = 6
  MaxReads = 5
  ReadSizes = {0, 1, 2, 3, 5, 9}
  MaxOps = %d
SPECIFICATION HSpec
INVARIANTS Nested Sizes ConversionsAgree ObsInside Replay
CHECK_DEADLOCK FALSE
"""
MC_CFG = """CONSTANTS
  N = %d
  MaxViews = %d
  MaxReads = 2
  ReadSizes = {0, 1, 3, 9}
SPECIFICATION Spec
INVARIANTS Nested Sizes ConversionsAgree ObsInside ReadsTile
CHECK_DEADLOCK FALSE
"""
TRACE_CFG = """CONSTANTS
  N = 1000000000
  MaxViews = 1000
  MaxReads = 100000
  ReadSizes = {0}
SPECIFICATION TraceSpec
INVARIANTS Nested Sizes
POSTCONDITION TraceAccepted
CHECK_DEADLOCK FALSE
"""


def simulate(max_ops, seconds, want):
    """TLC simulation of MC_Views: distinct complete behaviours (lists of ops)"""
    cfg = os.path.join(C.WORK, "cfg", "MC_Views_sim.cfg")
    os.makedirs(os.path.dirname(cfg), exist_ok=True)
    with open(cfg, "w") as f:
        f.write(SIM_CFG % max_ops)
    meta = os.path.join(C.WORK, "tlc", "views_sim")
    shutil.rmtree(meta, ignore_errors=True)
    cmd = ["timeout", str(seconds), "tlc", "-workers", "1", "-simulate", "num=100000", "-depth", str(max_ops + 1), "-seed", str(C.SEED),
           "-config", cfg, "-metadir", meta, "-cleanup", "-noGenerateSpecTE", os.path.join(C.SPEC, "MC_Views.tla")]
    p = subprocess.run(cmd, cwd=C.SPEC, capture_output=True, text=True)
    shutil.rmtree(meta, ignore_errors=True)
    if "is violated" in p.stdout:
        return None, p.stdout[-3000:]
    seen, out = set(), []
    for m in re.finditer(r'<<"REPLAY", "(.*)">>', p.stdout):
        if m.group(1) in seen:
            continue
        seen.add(m.group(1))
        out.append(C.unjson(m.group(1)))
        if len(out) >= want:
            break
    if not out:
        raise C.ToolError("TLC simulation of MC_Views produced no behaviour: %s" % p.stdout[-500:])
    return out, None


def scale(n_real):
    u = max(n_real // 6, 0)

    def f(p):
        return n_real if p >= 6 else p * u
    return f, max(u, 1)


def map_ops(beh, n_real):
    f, u = scale(n_real)
    ops = []
    for o in beh:
        if o["op"] == "cut":
            a = f(o["a"])
            ops.append({"op": "cut", "v": o["v"], "a": a, "n": f(min(o["a"] + o["n"], 6)) - a})
        elif o["op"] == "get_slice":
            a = f(o["a"])
            ops.append({"op": "get_slice", "v": o["v"], "a": a, "n": o["n"] * u})
        elif o["op"] in ("read", "read_exact"):
            ops.append({"op": o["op"], "v": o["v"], "n": o["n"] * u})
        else:
            ops.append({"op": o["op"], "v": o["v"]})
    return ops


def locate(expected, text):
    """(len, free, cands) for a 'bytes' string of the harness"""
    if text.startswith("err:"):
        return None
    if text.startswith("b3:"):
        _, ln, h, head = text.split(":")
        ln = int(ln)
        hb = bytes.fromhex(head)
        cands = []
        i = expected.find(hb)
        while i >= 0 and len(cands) < 8:
            if jbkdec.blake3_of(expected[i:i + ln]).hex() == h:
                cands.append(i)
            i = expected.find(hb, i + 1)
        return ln, False, cands
    if text.startswith("z:"):
        _, ln, h, head = text.split(":")
        ln = int(ln)
        hb = bytes.fromhex(head)
        cands = []
        i = expected.find(hb)
        while i >= 0 and len(cands) < 8:
            part = expected[i:i + ln]
            if "%08x%08x" % (zlib.crc32(part) & 0xFFFFFFFF, zlib.adler32(part) & 0xFFFFFFFF) == h:
                cands.append(i)
            i = expected.find(hb, i + 1)
        return ln, False, cands
    b = bytes.fromhex(text)
    if not b:
        return 0, True, []
    cands = []
    i = expected.find(b)
    while i >= 0:
        cands.append(i)
        i = expected.find(b, i + 1)
    if len(cands) > 200:
        # a very short return (the last bytes of a long content) occurs thousands of times: the list given to TLC keeps
        # true occurrences only (so it can never make a wrong return acceptable), the first and the last hundred
        cands = cands[:100] + cands[-100:]
    return len(b), False, cands


def trace_of(s, run, expected, root_kind):
    """Src / Root / Step events; returns (events, problem or None)"""
    sid = s["id"]
    hv = run["events"]
    err = next((e for e in hv if e["ev"] in ("ViewError", "ViewPanic")), None)
    if run["status"] != "ok" or err:
        site = next((e.get("site", "") for e in reversed(hv) if e["ev"] == "PanicSite"), "")
        return [], ("%s %s site=%s" % (run["status"], (err or {}).get("err", (err or {}).get("panic", ""))[:80], site))
    obs = [e for e in hv if e["ev"] == "Obs"]
    evs = [{"ev": "Src", "scn": sid, "n": len(expected), "kind": root_kind}]
    if not obs or obs[0]["op"] != "root":
        return [], "no root observation"
    loc = locate(expected, obs[0]["bytes"])
    if loc is None:
        return [], "root unreadable: %s" % obs[0]["bytes"][:80]
    evs.append({"ev": "Root", "scn": sid, "size": obs[0]["size"], "len": loc[0], "free": loc[1], "cands": loc[2]})
    if len(obs) - 1 != len(s["ops"]):
        return [], "expected %d observations, got %d" % (len(s["ops"]), len(obs) - 1)
    for o, ob in zip(s["ops"], obs[1:]):
        e = {"ev": "Step", "scn": sid, "op": o["op"], "v": o["v"], "a": o.get("a", 0), "n": o.get("n", 0), "kind": ob["kind"],
             "size": ob.get("size", 0), "offset": ob.get("offset", 0), "sizeLeft": ob.get("sizeLeft", 0), "len": 0, "free": True, "cands": []}
        if o["op"] == "read_exact" and "n" in ob:
            e["n"] = ob["n"]
        if "bytes" in ob:
            loc = locate(expected, ob["bytes"])
            if loc is None:
                e["kind"] = "err"
            else:
                e["len"], e["free"], e["cands"] = loc
        evs.append(e)
    return evs, None


def build_sources(binary, base, rng, tier):
    """create the packs the views are taken from; returns list of source descriptors"""
    # (3072: positions and read sizes are then multiples of 512, so that a short access is followed by a read that starts
    #  exactly one 1024-byte file buffer further)
    lens = [6, 96, 3072, 4200, 200000] if tier == "quick" else [6, 13, 96, 600, 3072, 4200, 6144, 70000, 200000]
    ops = []
    for i, ln in enumerate(lens):
        ops.append({"cid": 900 + i, "size": 37 + i, "cls": "rand", "hint": "detect"})     # keeps targets off offset 0
        ops.append({"cid": 10 + i, "size": ln, "cls": "pos", "hint": "detect"})
    scns = []
    for comp, hint in [("none", "no"), ("zstd", "yes"), ("lz4", "yes"), ("lzma", "yes")]:
        o2 = [dict(o, hint=hint) for o in ops]
        if comp != "none":
            # the targets sit far inside a compressed cluster of many 4 KiB chunks: the first view taken on
            # the freshly opened pack has to wait for the background decoder to reach them
            o2 = [{"cid": 800, "size": 700000, "cls": "low", "hint": hint}] + o2
        scns.append({"kind": "content", "id": "src_" + comp, "dir": os.path.join(base, "src_" + comp), "comp": comp,
                     "level": {"none": 0, "zstd": 3, "lz4": 1, "lzma": 1}[comp], "ops": o2, "read": False})
    scns.append({"kind": "content", "id": "src_basic", "dir": os.path.join(base, "src_basic"), "comp": "zstd", "level": 3, "creator": "basic",
                 "ops": [dict(o, hint=["yes", "no"][k % 2]) for k, o in enumerate(ops)], "read": False})
    # directory packs: entry bytes small (in-memory buffer) and >= 4 KiB (mmap)
    for name, n in (("small", 3), ("mmap", 260)):
        entries = [{"values": {"k": {"a": list(b"key-%05d-%s" % (j, bytes([65 + j % 26]) * 12))}, "n": {"u": j * 7919 % 65536}, "z": {"s": -j}}} for j in range(n)]
        scns.append({"kind": "entries", "id": "src_dir_" + name, "dir": os.path.join(base, "src_dir_" + name), "stores": ["plain"],
                     "schema": {"common": [{"name": "k", "type": "array", "prefix": 24, "store": 0}, {"name": "n", "type": "uint"}, {"name": "z", "type": "sint"}],
                                "variants": [], "sort": None},
                     "entries": entries, "indexes": [{"name": "main", "offset": 0, "count": n}], "read_stride": 1000})
    runs = C.run_scenarios(binary, scns, "C13_src", timeout=600)
    sources = []
    for s in scns:
        r = runs[s["id"]]
        fin = next((e for e in r["events"] if e["ev"] == "Finalize"), None)
        if r["status"] != "ok" or not fin or not fin.get("ok"):
            raise C.ToolError("cannot create the source %s for C13: %s" % (s["id"], fin))
        if s["kind"] == "content":
            adds = [e for e in r["events"] if e["ev"] == "Add"]
            for a in adds:
                if a["cls"] != "pos":
                    continue
                exp = jbkgen.content(a["cid"], a["size"], "pos")
                if s.get("creator") == "basic":
                    sources.append({"name": "container/zstd:%d" % a["size"], "source": "container", "file": fin["file"], "pack": a["pack"], "idx": a["idx"],
                                    "expected": exp, "root": "region"})
                else:
                    for src in (["pack-mem", "pack-file"] if s["comp"] == "none" else ["pack-file"]):
                        kind = {"pack-mem": "memory", "pack-file": "file-region" if s["comp"] == "none" else "decoded-" + s["comp"]}[src]
                        sources.append({"name": "%s:%d" % (kind, a["size"]), "source": src, "file": fin["file"], "pack": 1, "idx": a["idx"],
                                        "expected": exp, "root": "region"})
        else:
            dec = jbkdec.decode_file(fin["file"], check_hash=False)
            pk = jbkdec.all_packs(dec)[0]
            es = pk["entryStores"][0]
            blk = next(b for b in pk["blocks"] if b["kind"] == "EntryStoreData")
            with open(fin["file"], "rb") as f:
                data = f.read()[blk["begin"]:blk["begin"] + blk["size"]]
            for idx in ([1, 2] if es["count"] < 10 else [1, 77, es["count"] - 1]):
                sources.append({"name": "%s:%d" % ("buffer" if es["count"] < 10 else "mmap", es["entrySize"]), "source": "entry", "file": fin["file"],
                                "pack": 0, "idx": idx, "expected": data[idx * es["entrySize"]:(idx + 1) * es["entrySize"]], "root": "slice"})
    return sources


def run(prop, tier):
    rep = C.Report(prop, tier)
    rng = random.Random(C.SEED * 982451653 + 13)
    binary = C.build("debug")
    for n, mv in ([(4, 4)] if tier == "quick" else [(4, 4), (5, 4), (6, 3)]):
        r = C.tlc("Views", MC_CFG % (n, mv), "MC_Views_N%d" % n, timeout=2400)
        rep.add_tlc(r, "MC_Views N=%d MaxViews=%d" % (n, mv))
        if not r["ok"]:
            rep.violation("design: Views violates %s" % r["violated"], {"tlc": r.get("out", "")[-3000:]})
    behs, err = simulate(9, 12 if tier == "quick" else 60, 150 if tier == "quick" else 600)
    if behs is None:
        rep.violation("design: MC_Views simulation violates an invariant", {"tlc": err})
        behs = []
    # hand-written behaviours: full partitions of the length into reads, nesting to depth 3
    behs.append([{"op": "stream", "v": 1, "a": 0, "n": 0}] + [{"op": "read", "v": 2, "a": 0, "n": 1}] * 7)
    behs.append([{"op": "into_stream", "v": 1, "a": 0, "n": 0}, {"op": "read", "v": 2, "a": 0, "n": 2}, {"op": "read", "v": 2, "a": 0, "n": 9},
                 {"op": "read", "v": 2, "a": 0, "n": 1}])
    behs.append([{"op": "cut", "v": 1, "a": 1, "n": 4}, {"op": "cut", "v": 2, "a": 1, "n": 3}, {"op": "cut", "v": 3, "a": 1, "n": 1},
                 {"op": "to_region", "v": 4, "a": 0, "n": 0}, {"op": "into_stream", "v": 5, "a": 0, "n": 0}, {"op": "read", "v": 6, "a": 0, "n": 5},
                 {"op": "stream", "v": 3, "a": 0, "n": 0}, {"op": "read", "v": 7, "a": 0, "n": 1}, {"op": "read", "v": 7, "a": 0, "n": 5}])
    # accesses through different views of one source that follow each other at particular distances (a short access, then a
    # read that starts exactly 2 / 4 units further - one 1024-byte file buffer when the unit is 512 / 256): run on every source
    O = lambda op, v, a=0, n=0: {"op": op, "v": v, "a": a, "n": n}
    interplay = [
        [O("stream", 1), O("cut", 1, 2, 4), O("stream", 3), O("get_slice", 1, 0, 1), O("read", 4, 0, 1), O("read", 2, 0, 1), O("read", 4, 0, 1),
         O("get_slice", 1, 1, 1), O("read", 4, 0, 2)],
        [O("stream", 1), O("cut", 1, 2, 4), O("stream", 3), O("read", 2, 0, 1), O("read", 4, 0, 1), O("read", 2, 0, 1), O("read", 4, 0, 1)],
        [O("cut", 1, 4, 2), O("stream", 2), O("cut", 1, 0, 1), O("stream", 4), O("read", 5, 0, 1), O("read", 3, 0, 1), O("get_slice", 1, 2, 1), O("read", 3, 0, 1)],
    ]
    # the other entry points of std::io::Read on a stream: read_exact (all or nothing) and read_to_end into a vector that
    # already holds something (appends); in the TLC behaviours one read in four becomes a read_exact, one in eight a read_to_end
    for beh in behs:
        for o in beh:
            if o["op"] == "read":
                x = rng.random()
                if x < 0.25:
                    o["op"] = "read_exact"
                elif x < 0.375:
                    o["op"] = "read_to_end"
    interplay += [
        [O("stream", 1), O("read", 2, 0, 1), O("read_to_end", 2), O("read", 2, 0, 1), O("read_to_end", 2)],
        [O("cut", 1, 1, 4), O("stream", 2), O("read_exact", 3, 0, 2), O("read_to_end", 3), O("stream", 2), O("read_to_end", 4), O("read_exact", 4, 0, 1)],
        [O("stream", 1), O("read_to_end", 2), O("stream", 1), O("read_exact", 3, 0, 6), O("read_exact", 3, 0, 1)],
    ]
    n_tlc = len(behs)
    behs += interplay
    C.log("[%s] design level done %.0fs (%d behaviours)" % (prop, time.time() - rep.t0, len(behs)))
    base = os.path.join(C.WORK, "run_%s" % prop)
    shutil.rmtree(base, ignore_errors=True)
    os.makedirs(base)
    sources = build_sources(binary, base, rng, tier)
    scns, meta = [], {}
    k = 0
    for bi, beh in enumerate(behs):
        # every behaviour on a rotating subset of the sources (all of them in thorough)
        srcs = sources if (tier == "thorough" or bi >= n_tlc) else [sources[(bi * 5 + j * 7) % len(sources)] for j in range(4)]
        for src in srcs:
            ops = beh
            if src["root"] == "slice":
                # the root of an entry view is a slice: operations on view 1 that need a region go through to_region first
                ops = [{"op": "to_region", "v": 1, "a": 0, "n": 0}] + [dict(o, v=(o["v"] + 1)) for o in beh]
            k += 1
            s = {"kind": "views", "id": "v%d" % k, "file": src["file"], "source": src["source"], "pack": src["pack"], "idx": src["idx"],
                 "ops": map_ops(ops, len(src["expected"]))}
            scns.append(s)
            meta[s["id"]] = (src, bi)
    all_events, n_ok = [], 0
    nontrivial = set()
    for i in range(0, len(scns), 400):
        chunk = scns[i:i + 400]
        runs = C.run_scenarios(binary, chunk, "C13_b%d" % i, timeout=900)
        for s in chunk:
            src, bi = meta[s["id"]]
            evs, problem = trace_of(s, runs.get(s["id"], {"events": [], "status": "crash:notrun"}), src["expected"], src["root"])
            if problem:
                rep.violation("%s source=%s %s" % (prop, src["name"].split(":")[0], problem), {"scn": s, "source": src["name"]})
                continue
            all_events += evs
            n_ok += 1
            nontrivial.add((src["name"], bi))
            if len(rep.cov["samples"]) < 3:
                rep.cov["samples"].append({"source": src["name"], "ops": s["ops"], "trace": evs[:6]})
    C.log("[%s] %d scenarios run %.0fs" % (prop, len(scns), time.time() - rep.t0))
    import p_entries as E
    E.validate_all(rep, prop, [dict(s, name=meta[s["id"]][0]["name"]) for s in scns], all_events, "ViewsTrace", TRACE_CFG,
                   sigf=lambda s: "source=%s ops=%s" % (s["name"].split(":")[0], json.dumps([o["op"] for o in s["ops"]])))
    rep.cov["traces_validated_against_impl"] = n_ok
    rep.cov["trace_events"] = len(all_events)
    rep.cov["evaluations"] = len(scns)
    rep.cov["distinct_nontrivial"] = len(nontrivial)
    rep.cov["source_kinds"] = sorted(set(s["name"].split(":")[0] for s in sources))
    rep.cov["rule"] = ("behaviours = TLC simulation of MC_Views (9 operations over a content of abstract length 6: nested cuts, conversions, streams, reads, get_slice) "
                       "+ hand-written full read partitions, depth-3 nestings and interleaved accesses through several views at distances of 2 and 4 units (on every source), each scaled to the real length and replayed on source kinds %s (none at offset 0 of its source); "
                       "distinct = different (source, behaviour); all non-trivial" % rep.cov["source_kinds"])
    rep.assumptions += ["returned bytes are located in the expected content by search (position-coded contents); empty returns are checked by size only"]
    shutil.rmtree(base, ignore_errors=True)
    return rep.finish()
