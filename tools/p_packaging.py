"""C10 (same logical content however packaged), C11 (unavailable packs reported missing),
C12 (rewriting a location changes only that location): Packaging.tla exhaustively, every
configuration of the real creator / tools replayed, PackagingTrace.tla validating what the
reader did against the property-level Locate."""
import itertools
import json
import os
import random
import shutil
import time

import common as C
import jbkdec
import logical as L

TRACE_CFG = """CONSTANTS
  ContentPacks = {"c1", "c2", "c3"}
  Main = "c1"
  LocatePolicy = "identity"
  MaxOps = 99
SPECIFICATION TraceSpec
POSTCONDITION TraceAccepted
CHECK_DEADLOCK FALSE
"""


def mc_cfg(policy="identity", max_ops=3):
    return """CONSTANTS
  ContentPacks = {"c1", "c2", "c3"}
  Main = "c1"
  LocatePolicy = "%s"
  MaxOps = %d
SPECIFICATION Spec
INVARIANTS SameLogicalContent IdentityIsUuid MissingIsReported PresentStillReads EntryHasManifest
CHECK_DEADLOCK FALSE
""" % (policy, max_ops)


class World:
    """a directory holding one created container; knows which identity each uuid has"""

    def __init__(self, d, scn):
        self.dir, self.scn = d, scn
        self.ident = {}     # uuid -> "m" | "d" | "c1"..
        self.names = {}     # real file name -> symbolic path
        self.entry = scn["out"]

    def discover(self):
        """after creation: read the manifest with the independent decoder"""
        dec = jbkdec.decode_file(os.path.join(self.dir, self.entry), check_hash=False)
        man = next((p for p in jbkdec.all_packs(dec) if p["kind"] == "m"), None)
        if man is None:
            return False
        self.ident[man["uuid"]] = "m"
        pack_ids = {1: "c1"}
        for j, ex in enumerate(self.scn.get("extras", [])):
            pack_ids[ex["pack_id"]] = "c%d" % (j + 2)
        self.names[self.entry] = "main"
        for pi in man["packInfos"]:
            if pi["kind"] == "d":
                self.ident[pi["uuid"]] = "d"
                if pi["location"]:
                    self.names[pi["location"]] = "dir"
            else:
                idn = pack_ids.get(pi["packId"], "c?")
                self.ident[pi["uuid"]] = idn
                if pi["location"]:
                    self.names[pi["location"]] = "content" if idn == "c1" else "x_" + idn
        self.uuid_of = {v: k for k, v in self.ident.items()}
        return True

    def snapshot(self, sid, entry_file, mode, prefix_files=()):
        """Config / Fs / Loc events for the current state of the directory"""
        evs = [{"ev": "Config", "scn": sid, "entry": self.names.get(entry_file, "?"), "mode": mode}]
        for fn in sorted(os.listdir(self.dir)):
            sym = self.names.get(fn)
            if sym is None:
                continue
            p = os.path.join(self.dir, fn)
            if os.path.isdir(p):
                evs.append({"ev": "Fs", "scn": sid, "path": sym, "kind": "dir", "packs": [], "wrapped": False, "prefix": False})
                continue
            dec = jbkdec.decode_file(p, check_hash=False)
            packs = jbkdec.all_packs(dec)
            ids = [self.ident.get(pk["uuid"], "foreign") for pk in packs if pk["kind"] != "C"]
            evs.append({"ev": "Fs", "scn": sid, "path": sym, "kind": "file", "packs": sorted(set(ids)),
                        "wrapped": bool(packs) and packs[0]["kind"] == "C", "prefix": fn in prefix_files})
        # recorded locations, from the manifest inside the entry file
        dec = jbkdec.decode_file(os.path.join(self.dir, entry_file), check_hash=False)
        man = next((p for p in jbkdec.all_packs(dec) if p["kind"] == "m"), None)
        self.locs = {}
        if man:
            for pi in man["packInfos"]:
                idn = self.ident.get(pi["uuid"])
                if idn and pi["location"]:
                    evs.append({"ev": "Loc", "scn": sid, "pack": idn, "path": self.names.get(pi["location"], "nowhere")})
                self.locs[idn] = pi["location"]
        return evs


def observe(world, sid, run, expected, unavailable=(), damaged=()):
    """Open / Resolve / DumpDiff / Check events from a dump run"""
    evs = []
    d = next((e for e in run["events"] if e["ev"] == "Dump"), None)
    if run["status"] != "ok" or d is None:
        evs.append({"ev": "Open", "scn": sid, "res": run["status"] if run["status"] != "ok" else "nodump"})
        return evs, None
    evs.append({"ev": "Open", "scn": sid, "res": d["open"], "err": d.get("err", d.get("panic", ""))[:120]})
    if d["open"] != "ok":
        return evs, None
    dump = d["dump"]
    pack_ids = {1: "c1"}
    for j, ex in enumerate(world.scn.get("extras", [])):
        pack_ids[ex["pack_id"]] = "c%d" % (j + 2)
    for pk in dump["contents"]:
        idn = pack_ids.get(pk["pack"], "c?")
        r = {"ev": "Resolve", "scn": sid, "pack": idn, "res": "found" if pk["res"] == "ok" else pk["res"], "uuidOk": True, "locOk": True}
        if pk["res"] == "missing":
            r["uuidOk"] = (pk.get("uuid") == world.uuid_of.get(idn)) and pk.get("viaBytes", {}) == {"missing": world.uuid_of.get(idn)}
            r["locOk"] = (pk.get("location") == world.locs.get(idn, ""))
        evs.append(r)
    exp = json.loads(json.dumps(expected))
    skip = set(unavailable) | set(damaged)
    for pk in exp["contents"]:
        if pack_ids.get(pk["pack"]) in skip:
            pk.clear()
    exp["contents"] = [pk for pk in exp["contents"] if pk]
    got = dict(dump, contents=[pk for pk in dump["contents"] if pack_ids.get(pk["pack"]) not in skip])
    df = L.diff(exp, got)
    df = [x for x in df if x[0] != "check"]
    evs.append({"ev": "DumpDiff", "scn": sid, "n": len(df), "first": [list(map(str, x)) for x in df[:3]]})
    chk = dump["check"]
    evs.append({"ev": "Check", "scn": sid, "res": "true" if chk is True else ("false" if chk is False else "err"),
                "err": "" if isinstance(chk, bool) else json.dumps(chk)[:120], "damaged": bool(damaged)})
    return evs, dump


class Runner:
    def __init__(self, prop, tier, rep, binary):
        self.prop, self.tier, self.rep, self.binary = prop, tier, rep, binary
        self.base = os.path.join(C.WORK, "run_%s" % prop)
        shutil.rmtree(self.base, ignore_errors=True)
        os.makedirs(self.base)
        self.events = []
        self.cfgs = {}
        self.n = 0
        self.k = 0

    def harness(self, scns, tag):
        return C.run_scenarios(self.binary, scns, "%s_%s" % (self.prop, tag), timeout=900)

    def create(self, scn, sub):
        d = os.path.join(self.base, sub)
        shutil.rmtree(d, ignore_errors=True)
        os.makedirs(d)
        s = dict(scn, dir=d)
        r = self.harness([s], "create")[s["id"]]
        fin = next((e for e in r["events"] if e["ev"] == "Finalize"), None)
        if r["status"] != "ok" or not fin or not fin.get("ok"):
            self.rep.violation("%s creation failed mode=%s %s" % (self.prop, scn["concat"], (fin or {}).get("err", r["status"])[:80]),
                               {"scn": scn, "finalize": fin, "status": r["status"]})
            return None
        w = World(d, scn)
        if not w.discover():
            self.rep.violation("%s no manifest found in the entry point mode=%s" % (self.prop, scn["concat"]), {"scn": scn})
            return None
        return w

    def config(self, world, entry_file, desc, unavailable=(), prefix_files=(), damaged=()):
        """dump the container at entry_file; record config + observations"""
        self.k += 1
        sid = "k%d" % self.k
        self.cfgs[sid] = desc
        evs = world.snapshot(sid, entry_file, world.scn["concat"], prefix_files)
        req = L.dump_request(world.scn, os.path.join(world.dir, entry_file), did=sid)
        run = self.harness([req], "dump")[sid]
        obs, dump = observe(world, sid, run, L.expected_dump(world.scn), unavailable, damaged)
        self.events += evs + obs
        self.n += 1
        if len(self.rep.cov["samples"]) < 3:
            self.rep.cov["samples"].append({"config": desc, "trace": (evs + obs)[:14]})
        return dump

    def finish(self):
        import p_entries as E
        scns = [{"id": k, "desc": v} for k, v in self.cfgs.items()]
        E.validate_all(self.rep, self.prop, scns, self.events, "PackagingTrace", TRACE_CFG, sigf=lambda s: json.dumps(s["desc"], sort_keys=True)[:300])
        self.rep.cov["traces_validated_against_impl"] = self.n
        self.rep.cov["trace_events"] = len(self.events)
        self.rep.cov["evaluations"] = self.n
        self.rep.cov["distinct_nontrivial"] = len(set(json.dumps(v, sort_keys=True) for v in self.cfgs.values()))
        shutil.rmtree(self.base, ignore_errors=True)


def loose_files(world):
    return [fn for fn in sorted(os.listdir(world.dir)) if fn in world.names and os.path.isfile(os.path.join(world.dir, fn))]


def design(rep, max_ops=3):
    r = C.tlc("Packaging", mc_cfg("identity", max_ops), "MC_Packaging_%s" % rep.prop, timeout=1800)
    rep.add_tlc(r, "MC_Packaging")
    if not r["ok"]:
        rep.violation("design: Packaging violates %s" % r["violated"], {"tlc": r.get("out", "")[-3000:]})


def prefix_file(path, n, rng):
    with open(path, "rb") as f:
        data = f.read()
    junk = bytes(rng.randrange(256) for _ in range(n))
    if n >= 4:
        junk = b"\x7fELF" + junk[4:]
    with open(path, "wb") as f:
        f.write(junk + data)


def run_c10(prop, tier):
    rep = C.Report(prop, tier)
    rng = random.Random(C.SEED * 49979687 + 10)
    binary = C.build("debug")
    design(rep)
    R = Runner(prop, tier, rep, binary)
    ncont = 2 if tier == "quick" else 12
    for ci in range(ncont):
        nex = [2, 0, 1][ci % 3]
        for mode in ("one", "two", "none"):
            scn = L.make_container(rng, 100 + ci, n_extras=nex, concat=mode, big=(ci % 4 == 3), extra_ids=[5, 2] if (nex == 2 and mode == "none") else None)
            w = R.create(scn, "w")
            if w is None:
                continue
            R.config(w, w.entry, {"mode": mode, "extras": nex, "op": "direct"})
            files = loose_files(w)
            others = [f for f in files if f != w.entry]
            orders = list(itertools.permutations(files))
            if len(orders) > (24 if tier == "quick" else 120):
                orders = rng.sample(orders, 24 if tier == "quick" else 120)
            # subsets containing the entry point, in one order each
            for r_ in range(0, len(others)):
                for sub in itertools.combinations(others, r_):
                    orders.append((w.entry,) + sub)
            for oi, order in enumerate(orders):
                out = "cat.jbk"
                w.names[out] = "cat"
                p = os.path.join(w.dir, out)
                if os.path.exists(p):
                    os.unlink(p)
                t = R.harness([{"kind": "tool", "id": "cat", "op": "concat", "inputs": [os.path.join(w.dir, f) for f in order], "out": p}], "cat")["cat"]
                te = next((e for e in t["events"] if e["ev"] == "Tool"), None)
                if t["status"] != "ok" or not te or te["res"] != "ok":
                    rep.violation("%s concat failed mode=%s order=%s %s" % (prop, mode, [w.names[f] for f in order], (te or {}).get("err", t["status"])[:80]),
                                  {"order": order, "tool": te})
                    continue
                R.config(w, out, {"mode": mode, "extras": nex, "op": "concat", "order": [w.names[f] for f in order]})
                if oi == 0 and len(order) == len(files):
                    # every pack is inside the concatenated file: whatever lies at the recorded locations (a truncated copy,
                    # an empty file, bytes that are no pack at all) is never needed
                    for fn in sorted(others):
                        p2 = os.path.join(w.dir, fn)
                        for how in ("truncated", "empty", "junk"):
                            shutil.copy(p2, p2 + ".bak")
                            data = open(p2, "rb").read()
                            with open(p2, "wb") as f:
                                f.write({"truncated": data[:len(data) // 2], "empty": b"", "junk": bytes(rng.randrange(256) for _ in range(100))}[how])
                            R.config(w, out, {"mode": mode, "extras": nex, "op": "concat+stale-file", "file": w.names[fn], "how": how})
                            shutil.move(p2 + ".bak", p2)
                if oi == 0 or (tier == "thorough" and oi % 7 == 0):
                    for n in (1, 63, 64, 4096):
                        shutil.copy(p, p + ".bak")
                        prefix_file(p, n, rng)
                        R.config(w, out, {"mode": mode, "extras": nex, "op": "concat+prefix", "n": n, "order": [w.names[f] for f in order]},
                                 prefix_files=(out,))
                        shutil.move(p + ".bak", p)
                os.unlink(p)
            # a pack file reached through its recorded location, itself embedded at the end of another file
            for fn in sorted(others):
                p = os.path.join(w.dir, fn)
                for n in ((63, 4096) if tier == "quick" else (1, 63, 64, 4096)):
                    shutil.copy(p, p + ".bak")
                    prefix_file(p, n, rng)
                    R.config(w, w.entry, {"mode": mode, "extras": nex, "op": "prefix-pack-file", "file": w.names[fn], "n": n}, prefix_files=(fn,))
                    shutil.move(p + ".bak", p)
            if mode == "one":
                p = os.path.join(w.dir, w.entry)
                for n in (1, 63, 64, 4096):
                    shutil.copy(p, p + ".bak")
                    prefix_file(p, n, rng)
                    R.config(w, w.entry, {"mode": mode, "extras": nex, "op": "prefix", "n": n}, prefix_files=(w.entry,))
                    shutil.move(p + ".bak", p)
        C.log("[%s] container %d done %.0fs (%d configurations)" % (prop, ci, time.time() - rep.t0, R.n))
    R.finish()
    rep.cov["rule"] = ("for each seeded logical container (entries + contents, 0-2 extra content packs): the three packagings, concat of the loose files "
                       "in every order (sampled above 24/120) and of every subset containing the entry point, prefixes of 1/63/64/4096 bytes in front of the entry file and in front of "
                       "each pack file reached through its recorded location; each configuration is "
                       "dumped through reader::Container and compared item by item with the logical container; distinct = different configuration; all non-trivial")
    rep.cov["exhaustive"] = False
    rep.assumptions += ["which file holds which pack identity is taken from the independent decoder"]
    import p_lifecycle
    p_lifecycle.stage(rep, prop, tier, binary)      # ReadIsLogicalOrReported, end to end (root module Jubako.tla)
    return rep.finish()


def run_c11(prop, tier):
    rep = C.Report(prop, tier)
    rng = random.Random(C.SEED * 67867967 + 11)
    binary = C.build("debug")
    design(rep)
    R = Runner(prop, tier, rep, binary)
    ncont = 1 if tier == "quick" else 6
    for ci in range(ncont):
        for mode in ("two", "none", "one"):
            # pack ids need not be 1..n: the extra packs of the 'two' packaging (and of every other container in thorough) get ids 9 and 3
            # (and need not be listed in increasing order in the manifest)
            sparse = [9, 3] if (mode == "two" or ci % 2 == 1) else None
            scn = L.make_container(rng, 200 + ci, n_entries=6, n_extras=2, concat=mode, extra_ids=sparse)
            other = L.make_container(rng, 300 + ci, n_entries=4, n_extras=2, concat=mode, extra_ids=sparse)
            w = R.create(scn, "w")
            wo = R.create(other, "other")
            if w is None or wo is None:
                continue
            cfiles = {sym: fn for fn, sym in w.names.items() if sym in ("content", "x_c2", "x_c3")}
            ofiles = {sym: fn for fn, sym in wo.names.items() if sym in ("content", "x_c2", "x_c3")}
            syms = sorted(cfiles)
            choices = list(itertools.product(["keep", "removed", "dir", "other"], repeat=len(syms)))
            if tier == "quick" and len(choices) > 40:
                choices = [c for c in choices if c.count("keep") >= len(syms) - 1] + rng.sample(choices, 24)
            for ch in choices:
                saved = {}
                unavailable = set()
                for sym, what in zip(syms, ch):
                    p = os.path.join(w.dir, cfiles[sym])
                    if what == "keep":
                        continue
                    saved[p] = p + ".saved"
                    shutil.move(p, p + ".saved")
                    unavailable.add("c1" if sym == "content" else sym[2:])
                    if what == "dir":
                        os.makedirs(p)
                    elif what == "other":
                        shutil.copy(os.path.join(wo.dir, ofiles[sym]), p)
                R.config(w, w.entry, {"mode": mode, "op": "faults", "files": dict(zip(syms, ch))}, unavailable=unavailable)
                # the check covers the packs that are present: alter one byte inside the checked range of a kept pack
                kept = [sym for sym, what in zip(syms, ch) if what == "keep"]
                if kept and unavailable:
                    for sym in kept:
                        p = os.path.join(w.dir, cfiles[sym])
                        data = bytearray(open(p, "rb").read())
                        dec = jbkdec.decode_file(p, data=bytes(data), check_hash=False)
                        cp = next(pk for pk in jbkdec.all_packs(dec) if pk["kind"] == "c")
                        blk = next((b for b in cp["blocks"] if b["kind"] == "ClusterData" and b["size"] > 0), None)
                        if blk is None:
                            continue
                        pos = blk["begin"] + rng.randrange(0, blk["size"])     # content bytes: hashed, the pack still opens
                        orig = bytes(data)
                        data[pos] ^= 0x40
                        open(p, "wb").write(data)
                        ident = "c1" if sym == "content" else sym[2:]
                        R.config(w, w.entry, {"mode": mode, "op": "faults+damage", "files": dict(zip(syms, ch)), "damaged": sym},
                                 unavailable=unavailable, damaged={ident})
                        open(p, "wb").write(orig)
                for p, sv in saved.items():
                    if os.path.isdir(p):
                        shutil.rmtree(p)
                    elif os.path.exists(p):
                        os.unlink(p)
                    shutil.move(sv, p)
            # the same packs inside one concatenated file: whatever happens to the files at their recorded locations
            # (removed, a directory, a different pack), nothing is unavailable
            if cfiles:
                files = loose_files(w)
                out = "cat.jbk"
                pcat = os.path.join(w.dir, out)
                t = R.harness([{"kind": "tool", "id": "cat", "op": "concat", "inputs": [os.path.join(w.dir, f) for f in [w.entry] + [f for f in files if f != w.entry]], "out": pcat}], "cat")["cat"]
                te = next((e for e in t["events"] if e["ev"] == "Tool"), None)
                if te and te["res"] == "ok":
                    w.names[out] = "cat"
                    for what in ("removed", "dir", "other"):
                        saved = {}
                        for sym in syms:
                            p = os.path.join(w.dir, cfiles[sym])
                            saved[p] = p + ".saved"
                            shutil.move(p, p + ".saved")
                            if what == "dir":
                                os.makedirs(p)
                            elif what == "other":
                                shutil.copy(os.path.join(wo.dir, ofiles[sym]), p)
                        R.config(w, out, {"mode": mode, "op": "concat+faults", "files": {sym: what for sym in syms}})
                        for p, sv in saved.items():
                            if os.path.isdir(p):
                                shutil.rmtree(p)
                            elif os.path.exists(p):
                                os.unlink(p)
                            shutil.move(sv, p)
                    os.unlink(pcat)
                    w.names.pop(out, None)
        C.log("[%s] container %d done %.0fs (%d configurations)" % (prop, ci, time.time() - rep.t0, R.n))
    R.finish()
    rep.cov["rule"] = ("containers with 3 content packs in every packaging; every content-pack file independently kept / removed / replaced by a directory / replaced by a "
                       "different valid pack (all 4^k combinations; quick: single faults + 24 sampled), and the same faults applied to the files at the recorded locations once every pack "
                       "is also inside one concatenated file (nothing is unavailable then); every entry and every content is read; distinct = different configuration")
    rep.cov["exhaustive"] = (tier == "thorough")
    return rep.finish()


LOCS = ["", "a", "x" * 212, "y" * 213, "é" * 106 + "z", "sub.jbkc", "café-中文.pack"]
EQUIV_LOCS = ["packs/data.jbkc", "packs//data.jbkc", "packs/data.jbkc/", "./packs/data.jbkc", "packs/./data.jbkc", "packs/data.jbkc/.",
              "packs/data.jbkc", "PACKS/data.jbkc", "packs/data.jbkc ", "packs\\data.jbkc", "packs/data.jbkc"]


def run_c12(prop, tier):
    rep = C.Report(prop, tier)
    rng = random.Random(C.SEED * 86028121 + 12)
    binary = C.build("debug")
    design(rep)
    R = Runner(prop, tier, rep, binary)
    ncont = 1 if tier == "quick" else 5
    for ci in range(ncont):
        for mode in ("one", "two", "none"):
            scn = L.make_container(rng, 400 + ci, n_entries=5, n_extras=2, concat=mode)
            w = R.create(scn, "w")
            if w is None:
                continue
            variants = [("direct", w.entry)]
            # the manifest at another offset: after concat of everything (manifest no longer first)
            files = loose_files(w)
            order = [f for f in files if f != w.entry] + [w.entry]
            out = os.path.join(w.dir, "cat.jbk")
            t = R.harness([{"kind": "tool", "id": "cat", "op": "concat", "inputs": [os.path.join(w.dir, f) for f in order], "out": out}], "cat")["cat"]
            te = next((e for e in t["events"] if e["ev"] == "Tool"), None)
            if te and te["res"] == "ok":
                w.names["cat.jbk"] = "cat"
                variants.append(("concat", "cat.jbk"))
            for vname, entry in variants:
                nseq = 3 if tier == "quick" else 10
                for sq in range(nseq):
                    work = os.path.join(R.base, "seq")
                    shutil.rmtree(work, ignore_errors=True)
                    shutil.copytree(w.dir, work)
                    w2 = World(work, scn)
                    w2.ident, w2.names, w2.uuid_of = dict(w.ident), dict(w.names), dict(w.uuid_of)
                    steps = rng.randrange(1, 6)
                    for st in range(steps):
                        target = rng.choice(["d", "c1", "c2", "c3", "unknown"])
                        loc = rng.choice(LOCS)
                        set_location_step(R, rep, w2, entry, vname, mode, target, loc, rng)
                # a history of strings that name the same path but are different strings (doubled separator, '.', trailing
                # separator, './' in front): what is read back is the string given, whatever was recorded before
                work = os.path.join(R.base, "seq")
                shutil.rmtree(work, ignore_errors=True)
                shutil.copytree(w.dir, work)
                w2 = World(work, scn)
                w2.ident, w2.names, w2.uuid_of = dict(w.ident), dict(w.names), dict(w.uuid_of)
                target = rng.choice(["c1", "c2", "d"])
                for loc in EQUIV_LOCS if tier != "quick" else EQUIV_LOCS[:2] + rng.sample(EQUIV_LOCS[2:], 3):
                    set_location_step(R, rep, w2, entry, vname, mode, target, loc, rng)
        C.log("[%s] container %d done %.0fs (%d steps)" % (prop, ci, time.time() - rep.t0, R.n))
    big_manifests(R, rep, rng, tier)
    R.finish()
    rep.cov["rule"] = ("manifests standalone and inside container files (directly created and after concat, so at several offsets), every listed pack and an unknown uuid, "
                       "manifests written with ManifestPackCreator over synthetic pack descriptions whose pack-info table starts beyond 64 KiB and 128 KiB (2000 packs; "
                       "packs with 30 000 - 70 000 bytes of free data), "
                       "location strings of 0, 1, 212, 213 bytes and multi-byte UTF-8 ending exactly at 213, sequences of 1-5 rewrites; after each step byte diff, independent "
                       "decode, library manifest view and full dump; distinct = different (packaging, target, string) step")
    return rep.finish()


def big_manifests(R, rep, rng, tier):
    """manifests BasicCreator never writes: the pack-info table far from the start of the manifest (many packs, or packs
    with large free data), standalone and inside a container file; locations of packs at the start, in the middle and
    at the end of the table are rewritten"""
    shapes = [("free", [(30000, 3), (24, 1)]), ("many", [(24, 2000)])]
    if tier != "quick":
        shapes += [("free2", [(70000, 2), (0, 1), (1, 3)]), ("many2", [(100, 700)]), ("small", [(24, 4)])]
    for name, groups in shapes:
        for in_container in (False, True):
            d = os.path.join(R.base, "big_%s_%d" % (name, in_container))
            shutil.rmtree(d, ignore_errors=True)
            os.makedirs(d)
            packs = []
            for free_len, n in groups:
                for _ in range(n):
                    i = len(packs) + 1
                    packs.append({"uuid": "10000000-0000-4000-8000-%012x" % i, "pack_id": i, "free_len": free_len, "free_seed": 7000 + i, "loc": "content_%d.jbkc" % i})
            path = os.path.join(d, "m.jbk")
            t = R.harness([{"kind": "tool", "id": "mk", "op": "make_manifest", "out": path, "packs": packs, "in_container": in_container}], "mk")["mk"]
            te = next((e for e in t["events"] if e["ev"] == "Tool"), None) or {"res": t["status"]}
            if te["res"] != "ok":
                rep.violation("%s manifest of %d packs (%s) cannot be written: %s" % (R.prop, len(packs), name, te.get("err") or te.get("panic") or te["res"]), {"tool": te})
                continue
            n = len(packs)
            targets = sorted({0, 1, n // 2, n - 1} & set(range(n)))
            steps = [(packs[i]["uuid"], True) for i in targets] + [(te["out"]["directory"], True), ("00000000-0000-4000-8000-000000000001", False)]
            rng.shuffle(steps)
            for uuid, known in steps[:4 if tier == "quick" else 8]:
                cur = next((pk_["loc"] for pk_ in packs if pk_["uuid"] == uuid), None)
                near = [rng.choice(["./" + cur, cur + "/", cur + "/."])] if cur else []
                for loc in near + rng.sample(LOCS, 2 if tier == "quick" else 4):
                    R.k += 1
                    sid = "k%d" % R.k
                    R.cfgs[sid] = {"mode": "synthetic manifest %s" % name, "variant": "container" if in_container else "standalone", "packs": n,
                                   "target": uuid[-6:], "loc_len": len(loc.encode())}
                    ev, te2, _ = rewrite_once(R, sid, path, uuid, loc, known)
                    R.events += [{"ev": "Config", "scn": sid, "entry": "main", "mode": "none"}, ev]
                    R.n += 1
            shutil.rmtree(d, ignore_errors=True)
        C.log("[%s] synthetic manifests %s done %.0fs" % (R.prop, name, time.time() - rep.t0))


def rewrite_once(R, sid, path, uuid, loc, known):
    """one set_location on `path`: the SetLocation event (byte diff located by the independent decoder's map of the
    original file, independent decode of the result, the library's own view), the tool event and the original manifest"""
    before = open(path, "rb").read()
    dec0 = jbkdec.decode_file(path, data=before, check_hash=False)
    man0 = next((p for p in jbkdec.all_packs(dec0) if p["kind"] == "m"), None)
    if man0 is None:
        # an earlier rewrite of this history left a file in which the independent decoder finds no manifest any more
        ev = {"ev": "SetLocation", "scn": sid, "known": known, "res": "err", "found": False, "diffOutside": 0, "diffInsideOther": 0, "manifestOpens": False,
              "manifestCheck": "", "otherInfosSame": False, "readBack": False, "fileSame": True, "err": "no manifest can be decoded in the file before this rewrite"}
        return ev, {"res": "err"}, {"packInfos": []}
    t = R.harness([{"kind": "tool", "id": sid, "op": "set_location", "file": path, "uuid": uuid, "loc": loc}], "setloc")[sid]
    te = next((e for e in t["events"] if e["ev"] == "Tool"), None) or {"res": t["status"]}
    after = open(path, "rb").read()
    ev = {"ev": "SetLocation", "scn": sid, "known": known, "res": te["res"], "found": bool(te.get("out", {}).get("found")),
          "diffOutside": 0, "diffInsideOther": 0, "manifestOpens": False, "manifestCheck": "", "otherInfosSame": False,
          "readBack": False, "fileSame": before == after, "err": (te.get("err") or te.get("panic") or "")[:100]}
    # byte diff, located by the independent decoder's map of the *original* file
    if len(before) != len(after):
        ev["diffOutside"] = abs(len(before) - len(after)) + 1
    else:
        pi0 = next((pi for pi in man0["packInfos"] if pi["uuid"] == uuid), None)
        lo, hi = (pi0["_pos"], pi0["_pos"] + 256) if pi0 else (0, 0)
        for i in range(len(before)):
            if before[i] != after[i]:
                if lo <= i < hi:
                    if not (lo + 38 <= i < lo + 256):       # location field (38..252) and block CRC (252..256)
                        ev["diffInsideOther"] += 1
                else:
                    ev["diffOutside"] += 1
    # independent decode of the result: every CRC, masked global hash
    dec1 = jbkdec.decode_file(path, data=after, check_hash=True)
    man1 = next((p for p in jbkdec.all_packs(dec1) if p["kind"] == "m"), None)
    bad = [v for v in dec1["violations"] if v["rule"] not in ("pack-size-relation",)]
    if man1 is not None and not bad and man1.get("checkOk"):
        infos0 = {pi["uuid"]: {k: v for k, v in pi.items() if not k.startswith("_")} for pi in man0["packInfos"]}
        infos1 = {pi["uuid"]: {k: v for k, v in pi.items() if not k.startswith("_")} for pi in man1["packInfos"]}
        same = all(infos0[u] == infos1.get(u) for u in infos0 if u != uuid)
        if known and uuid in infos0 and uuid in infos1:
            a, b = dict(infos0[uuid]), dict(infos1[uuid])
            for k_ in ("location", "locationRaw"):
                a.pop(k_), b.pop(k_)
            same = same and a == b
            dec_readback = infos1[uuid]["location"] == loc
        else:
            dec_readback = True
        # the library's own view
        mv = R.harness([{"kind": "tool", "id": sid, "op": "manifest", "file": path}], "manifest")[sid]
        me = next((e for e in mv["events"] if e["ev"] == "Tool"), None) or {"res": mv["status"]}
        if me["res"] == "ok":
            ev["manifestOpens"] = True
            chk = me["out"]["check"]
            ev["manifestCheck"] = "true" if chk is True else ("false" if chk is False else "err")
            lib = {i["uuid"]: i for i in me["out"]["infos"]}
            ev["readBack"] = dec_readback and (not known or lib.get(uuid, {}).get("location") == loc)
            same = same and all(lib.get(u, {}).get("location") == infos0[u]["location"] for u in infos0 if u != uuid)
        ev["otherInfosSame"] = same
    else:
        ev["err"] = (ev["err"] + " decode:" + json.dumps(bad[:2]))[:200]
    return ev, te, man0


def set_location_step(R, rep, w, entry, vname, mode, target, loc, rng):
    R.k += 1
    sid = "k%d" % R.k
    hist = getattr(w, "history", [])
    w.history = hist
    desc = {"mode": mode, "variant": vname, "target": target, "loc_len": len(loc.encode()), "loc": loc[:20], "history": list(hist)}
    hist.append([target, loc[:8], len(loc.encode())])
    R.cfgs[sid] = desc
    path = os.path.join(w.dir, entry)
    known = target != "unknown"
    uuid = w.uuid_of[target] if known and target in w.uuid_of else "00000000-0000-4000-8000-000000000001"
    if known and target not in w.uuid_of:
        return
    ev, te, man0 = rewrite_once(R, sid, path, uuid, loc, known)
    evs = [ev]
    # content unchanged: move the pack's file to the new location when that makes sense, then dump
    if known and te["res"] == "ok" and ev["manifestOpens"]:
        old = next((pi["location"] for pi in man0["packInfos"] if pi["uuid"] == uuid), "")
        moved = False
        holds = False
        if old and os.path.isfile(os.path.join(w.dir, old)):
            dold = jbkdec.decode_file(os.path.join(w.dir, old), check_hash=False)
            holds = any(pk["uuid"] == uuid for pk in jbkdec.all_packs(dold))
        # the pack's own file follows its new location (never a file that merely sits at the old location string)
        if holds and loc and old != loc and "/" not in loc and not os.path.exists(os.path.join(w.dir, loc)):
            shutil.move(os.path.join(w.dir, old), os.path.join(w.dir, loc))
            w.names[loc] = w.names.pop(old, "moved")
            moved = True
        in_entry = target in [i for e_ in w.snapshot(sid, entry, mode) if e_["ev"] == "Fs" and e_["path"] == w.names.get(entry) for i in e_["packs"]]
        if in_entry or moved or (old == loc) or (old and not loc and False):
            evs = w.snapshot(sid, entry, mode) + evs
            req = L.dump_request(w.scn, path, did=sid)
            run = R.harness([req], "dump")[sid]
            unavailable = set()
            # packs whose files are not reachable any more are not the subject here
            for e_ in evs:
                pass
            avail = set()
            for e_ in evs:
                if e_["ev"] == "Fs":
                    avail |= set(e_["packs"])
            obs, _ = observe(w, sid, run, L.expected_dump(w.scn), unavailable={c for c in ("c1", "c2", "c3") if not reachable(w, evs, c)})
            evs += obs
        else:
            evs = w.snapshot(sid, entry, mode)[:1] + evs
    else:
        evs = w.snapshot(sid, entry, mode)[:1] + evs
    R.events += evs
    R.n += 1
    if len(rep.cov["samples"]) < 3:
        rep.cov["samples"].append({"step": desc, "trace": evs[-4:]})


def reachable(w, evs, c):
    entry_sym = next(e["entry"] for e in evs if e["ev"] == "Config")
    fs = {e["path"]: e for e in evs if e["ev"] == "Fs"}
    locs = {e["pack"]: e["path"] for e in evs if e["ev"] == "Loc"}
    if entry_sym in fs and c in fs[entry_sym]["packs"]:
        return True
    p = locs.get(c)
    return bool(p and p in fs and fs[p]["kind"] == "file" and c in fs[p]["packs"])


def run(prop, tier):
    return {"C10": run_c10, "C11": run_c11, "C12": run_c12}[prop](prop, tier)
