"""Shared machinery of the checks: build the harness from /repo's working tree, run it under
supervision (a crash / abort / hang of the code under test is data), run TLC (exhaustive
configurations and trace validation), report verdicts, write evidence."""
import json
import os
import re
import shutil
import signal
import subprocess
import sys
import time

ROOT = os.path.dirname(os.path.dirname(os.path.abspath(__file__)))
SPEC = os.path.join(ROOT, "spec")
HARNESS = os.path.join(ROOT, "harness")
WORK = os.environ.get("VERIF_WORK", os.path.join(ROOT, "work"))
REPLAYS = os.path.join(ROOT, "replays")
EVIDENCE = os.path.join(ROOT, "evidence")
POOL = os.path.join(WORK, "pool.bin")
SEED = int(os.environ.get("VERIF_SEED", "1") or "1")
TLC_WORKERS = int(os.environ.get("VERIF_TLC_WORKERS", "8"))


class ToolError(Exception):
    pass


def log(*a):
    print(*a, file=sys.stderr, flush=True)


def ensure_work():
    os.makedirs(WORK, exist_ok=True)
    if not os.path.exists(POOL) or os.path.getsize(POOL) != (1 << 20):
        import random
        with open(POOL + ".tmp", "wb") as f:
            f.write(random.Random(20261004).randbytes(1 << 20))
        os.replace(POOL + ".tmp", POOL)


# ------------------------------------------------------------------ harness build / run
def build(profile="debug", hooked=False):
    """cargo build of the harness against /repo's current working tree; returns the binary."""
    ensure_work()
    tdir = "target-hooked" if hooked else "target"
    hdir = HARNESS
    repo = os.environ.get("VERIF_REPO", "/repo")
    if repo != "/repo":
        # background runs against a snapshot of the repository (vp run --with-repo): same harness
        # sources, path dependency redirected; MANIFEST commands never set VERIF_REPO
        hdir = os.path.join(WORK, "harness_alt")
        os.makedirs(hdir, exist_ok=True)
        for name in ("src", ".cargo"):
            dst = os.path.join(hdir, name)
            if not os.path.islink(dst):
                os.symlink(os.path.join(HARNESS, name), dst)
        shutil.copy(os.path.join(HARNESS, "Cargo.lock"), os.path.join(hdir, "Cargo.lock"))
        with open(os.path.join(HARNESS, "Cargo.toml")) as f:
            toml = f.read().replace('path = "/repo"', 'path = "%s"' % repo)
        with open(os.path.join(hdir, "Cargo.toml"), "w") as f:
            f.write(toml)
    cmd = ["cargo", "build", "--offline", "--target-dir", tdir]
    if profile == "release":
        cmd.append("--release")
    env = dict(os.environ)
    env["CARGO_NET_OFFLINE"] = "true"
    flags = env.get("RUSTFLAGS", "")
    if hooked:
        flags += " --cfg jubako_verif"
    flags += " -Awarnings"
    env["RUSTFLAGS"] = flags.strip()
    t0 = time.time()
    r = subprocess.run(cmd, cwd=hdir, env=env, capture_output=True, text=True)
    if r.returncode != 0:
        sys.stderr.write(r.stderr[-6000:])
        raise ToolError("harness build failed (profile %s, hooked %s)" % (profile, hooked))
    log("[build] %s%s %.1fs" % (profile, " hooked" if hooked else "", time.time() - t0))
    binary = os.path.join(hdir, tdir, profile, "jbkdrive")
    os.environ["VERIF_CODEC"] = binary      # the independent decoder's codec helper (third-party crates only)
    return binary


def parse_trace(path):
    evs = []
    if not os.path.exists(path):
        return evs
    with open(path, "rb") as f:
        for line in f:
            line = line.strip()
            if not line:
                continue
            try:
                evs.append(json.loads(line))
            except ValueError:
                pass  # torn last line of a killed process
    return evs


def run_scenarios(binary, scenarios, tag, timeout=120, prefix=None, env_extra=None, per_scn_timeout=None, before_round=None, max_failures=None):
    """Run scenarios through `jbkdrive run`. Returns {scn id: {"events": [...], "status": ...}}.
    status: ok | crash:<rc> | timeout.  After a crash or timeout the remaining scenarios are
    run in a fresh process (the culprit is the scenario that began and did not end)."""
    ensure_work()
    res = {}
    todo = list(scenarios)
    rnd = 0
    env = dict(os.environ)
    env["VERIF_POOL"] = POOL
    env["RUST_BACKTRACE"] = "0"
    if env_extra:
        env.update(env_extra)
    failures = 0
    while todo:
        if max_failures is not None and failures >= max_failures:
            for s_ in todo:
                res.setdefault(s_["id"], {"events": [], "status": "skipped"})
            break
        rnd += 1
        if before_round is not None:
            before_round()
        sf = os.path.join(WORK, "%s.scn.%d.ndjson" % (tag, rnd))
        tf = os.path.join(WORK, "%s.trace.%d.ndjson" % (tag, rnd))
        with open(sf, "w") as f:
            for s in todo:
                f.write(json.dumps(s) + "\n")
        if os.path.exists(tf):
            os.unlink(tf)
        cmd = (prefix or []) + [binary, "run", sf, tf]
        status = "ok"
        try:
            p = subprocess.run(cmd, env=env, capture_output=True, timeout=timeout)
            if p.returncode == 98:
                status = "timeout"          # the harness's own per-scenario watchdog (VERIF_SCN_TIMEOUT)
                stderr_tail = ""
            elif p.returncode != 0:
                status = "crash:%d" % p.returncode
                stderr_tail = p.stderr.decode("utf-8", "replace")[-600:]
            else:
                stderr_tail = ""
        except subprocess.TimeoutExpired as e:
            status = "timeout"
            stderr_tail = (e.stderr or b"").decode("utf-8", "replace")[-600:]
        evs = parse_trace(tf)
        cur = None
        done = set()
        for e in evs:
            if e.get("ev") == "Begin":
                cur = e["scn"]
                res[cur] = {"events": [], "status": "ok"}
            elif cur is not None:
                if e.get("ev") == "End":
                    done.add(cur)
                    cur = None
                else:
                    res[cur]["events"].append(e)
        if status == "ok":
            missing = [s for s in todo if s["id"] not in done]
            if missing:
                raise ToolError("harness exited 0 but did not finish %s" % missing[0]["id"])
            todo = []
        else:
            ids = [s["id"] for s in todo]
            if cur is None:
                # died between scenarios or before the first Begin: attribute to the next one
                nxt = [i for i in ids if i not in done]
                if not nxt:
                    todo = []
                    continue
                cur = nxt[0]
                res.setdefault(cur, {"events": [], "status": "ok"})
            res[cur]["status"] = status
            res[cur]["stderr"] = stderr_tail
            failures += 1
            k = ids.index(cur)
            todo = todo[k + 1:]
        for p_ in (sf, tf):
            if status == "ok" and os.path.exists(p_):
                os.unlink(p_)
    return res


# ------------------------------------------------------------------ TLC
TLC_JAR = "/opt/veriftools/tla/tla2tools.jar"


def tlc(module, cfg_text, name, workers=None, trace=None, timeout=1800, simulate=None, env_extra=None,
        keep_out=False):
    """Run TLC on spec/<module>.tla with the given cfg text. Returns a dict:
    ok (no error found), states, distinct, diameter, violated (invariant/property name),
    replay (list of REPLAY json strings), printed (all PrintT tuples as raw text), out."""
    ensure_work()
    cdir = os.path.join(WORK, "cfg")
    os.makedirs(cdir, exist_ok=True)
    cfg = os.path.join(cdir, name + ".cfg")
    with open(cfg, "w") as f:
        f.write(cfg_text)
    meta = os.path.join(WORK, "tlc", name)
    shutil.rmtree(meta, ignore_errors=True)
    os.makedirs(meta, exist_ok=True)
    env = dict(os.environ)
    if env_extra:
        env.update(env_extra)
    if trace is not None:
        env["TRACE"] = trace
        env["JAVA_TOOL_OPTIONS"] = "-Xss1g -Dtlc2.tool.queue.IStateQueue=StateDeque"
        w = 1
    else:
        env.setdefault("JAVA_TOOL_OPTIONS", "-Xss512m")
        w = workers or TLC_WORKERS
    cmd = ["timeout", str(timeout), "tlc", "-workers", str(w), "-config", cfg, "-metadir", meta, "-cleanup",
           "-noGenerateSpecTE", "-checkpoint", "0"]
    if trace is None:
        cmd += ["-coverage", "1"]
    if simulate:
        cmd += ["-simulate", simulate]
    cmd.append(os.path.join(SPEC, module + ".tla"))
    t0 = time.time()
    p = subprocess.run(cmd, cwd=SPEC, env=env, capture_output=True, text=True)
    out = p.stdout + p.stderr
    shutil.rmtree(meta, ignore_errors=True)
    r = {"rc": p.returncode, "wall": time.time() - t0, "name": name}
    if p.returncode == 124:
        raise ToolError("TLC timed out on %s" % name)
    m = re.search(r"(\d+) states generated, (\d+) distinct states found", out)
    r["states"] = int(m.group(2)) if m else 0
    r["transitions"] = int(m.group(1)) if m else 0
    m = re.search(r"depth of the complete state graph search is (\d+)", out)
    r["diameter"] = int(m.group(1)) if m else 0
    r["violated"] = None
    m = re.search(r"Invariant (\S+) is violated", out)
    if m:
        r["violated"] = m.group(1)
    m = re.search(r"Temporal property (\S+) was violated|Temporal properties were violated|property (\S+) is violated", out)
    if m and not r["violated"]:
        r["violated"] = m.group(1) or m.group(2) or "temporal"
    if "Deadlock reached" in out and not r["violated"]:
        r["violated"] = "deadlock"
    r["post_failed"] = "Checking POSTCONDITION" in out and ("is violated" in out or "evaluated to FALSE" in out or "was violated" in out)
    m = re.search(r'<<"REJECTED", (\d+), ', out)
    r["rejected_at"] = int(m.group(1)) if m else None
    m = re.findall(r'<<"DRIFT", (\d+)>>', out)
    r["drift"] = int(m[-1]) if m else 0
    r["replay"] = re.findall(r'<<"REPLAY", "(.*)">>', out)
    r["printed"] = re.findall(r"^<<.*>>$", out, re.M)
    errs = [ln for ln in out.splitlines() if ln.startswith("Error:")]
    r["errors"] = errs
    r["ok"] = (p.returncode == 0 and not errs and r["violated"] is None)
    # coverage: actions never taken
    r["uncovered"] = re.findall(r"<(\w+) line \d+, col \d+ to line \d+, col \d+ of module \w+>: 0:0", out)
    if keep_out or not r["ok"]:
        k = out.find("The coverage statistics")
        brief = out if k < 0 else out[:k] + out[out.rfind("End of statistics"):]
        brief = "\n".join(ln for ln in brief.splitlines() if not ln.startswith('<<"REPLAY"'))
        r["out"] = brief[-8000:]
    if p.returncode not in (0, 10, 11, 12, 13) and not r["violated"] and not r["post_failed"]:
        # 12 = safety violation, 13 = liveness, 11 = deadlock, 10 = assumption failure
        sys.stderr.write(out[-3000:])
        raise ToolError("TLC failed on %s (rc %d)" % (name, p.returncode))
    return r


def unjson(s):
    """a ToJson string as printed inside a TLA+ tuple (backslash-escaped quotes)"""
    return json.loads(s.replace('\\"', '"').replace("\\\\", "\\"))


# bin/selftest.py sets VERIF_SELFTEST=<module>:<flip|drop> to show that the binding is real: one
# recorded field is corrupted (or one event removed) before validation and the check must report it.
SELFTEST_FLIP = {
    "ContentPackTrace": ("Get", lambda e: e.update(cid=e["cid"] + 1) if e["res"] == "match" else None),
    "EntryStoreTrace": ("Index", lambda e: e.update(count=e["count"] + 1)),
    "EntryOrderTrace": [("Find", lambda e: e.update(res=-1) if e["res"] >= 0 else None),      # a key that was written reported absent
                        ("Handles", lambda e: e.update(pos=[e["pos"][1], e["pos"][0]] + e["pos"][2:], inv=[e["inv"][1], e["inv"][0]] + e["inv"][2:])
                         if len(e["pos"]) >= 2 and e["pos"][0] in (0, 1) and e["pos"][1] in (0, 1) else None)],
    "ClusterPipelineTrace": ("Seg", lambda e: e.update(tail=e["tail"] + 1)),
    "PackagingTrace": ("DumpDiff", lambda e: e.update(n=e["n"] + 1)),
    "ViewsTrace": ("Root", lambda e: e.update(size=e["size"] + 1)),
    "IntegrityTrace": ("Case", lambda e: e.update(check="true", coveredChecks=["true"] * len(e["coveredChecks"]), nDiffStruct=1, open="panic") if e["covered"] else None),
    "AtomicCreateTrace": ("After", lambda e: e.update(classes=["other"] + e["classes"][1:])),
    "DecoderTrace": ("Publish", lambda e: e.update(a=e["a"] + 1000000)),
    "Layout": ("Ptr", lambda e: e.update(offset=e["offset"] + 1)),
    "PipelineHooksTrace": ("Hook", lambda e: e.update(b=e["b"] + 1) if e["name"] == "PWrite" else None),
}
SELFTEST_DROP = {"ContentPackTrace": "Add", "EntryStoreTrace": "Entry", "EntryOrderTrace": "Entry", "ClusterPipelineTrace": "NewCluster",
                 "PackagingTrace": {"Fs": ("Fs", lambda e, c: e["kind"] == "file" and any(p_ in ("c1", "c2", "c3") for p_ in e["packs"]) and c is not None
                                           and c.get("mode") in ("two", "none") and c.get("entry") == "main" and e["path"] != "main"),
                                    "Loc": ("Loc", lambda e, c: e["pack"] != "d" and c is not None and c.get("mode") in ("two", "none") and c.get("entry") == "main")},
                 "ViewsTrace": "Src",
                 "IntegrityTrace": None, "AtomicCreateTrace": "Rename", "DecoderTrace": ("Publish", lambda e, c, nxt: nxt is not None and nxt["ev"] in ("WaitDone", "Slice")), "Layout": "Block",
                 "PipelineHooksTrace": ("Hook", lambda e: e["name"] == "PDec")}


def selftest_corrupt(module, events):
    st = os.environ.get("VERIF_SELFTEST", "")
    if not st or not st.startswith(module + ":") or not events:
        return events
    mode = st.split(":")[1]
    import copy
    evs = copy.deepcopy(events)
    start = len(evs) // 3
    order = list(range(start, len(evs))) + list(range(0, start))
    if mode == "flip":
        alts = SELFTEST_FLIP[module]
        for kind, f in (alts if isinstance(alts, list) else [alts]):
            for i in order:
                if evs[i]["ev"] == kind:
                    before = json.dumps(evs[i], sort_keys=True)
                    f(evs[i])
                    if json.dumps(evs[i], sort_keys=True) != before:
                        log("[selftest] corrupted event %d of %s: %s" % (i, module, kind))
                        return evs
    elif mode == "drop" and SELFTEST_DROP.get(module):
        d = SELFTEST_DROP[module]
        if isinstance(d, dict):         # several ways of dropping: VERIF_SELFTEST=<module>:drop:<which>
            which = st.split(":")[2] if st.count(":") >= 2 else sorted(d)[0]
            d = d[which]
        kind, pred = d if isinstance(d, tuple) else (d, lambda e: True)
        # (the last Config event before each event: some events only matter in some configurations)
        cfg, last = [], None
        for e in evs:
            if e["ev"] == "Config":
                last = e
            cfg.append(last)
        for i in order:
            if pred.__code__.co_argcount == 3:
                # (the next event about the same buffer)
                nxt = next((evs[j] for j in range(i + 1, min(i + 400, len(evs))) if evs[j].get("buf") == evs[i].get("buf")), None)
                hit = evs[i]["ev"] == kind and pred(evs[i], cfg[i], nxt)
            elif pred.__code__.co_argcount == 2:
                hit = evs[i]["ev"] == kind and pred(evs[i], cfg[i])
            else:
                hit = evs[i]["ev"] == kind and pred(evs[i])
            if hit:
                log("[selftest] dropped event %d of %s: %s" % (i, module, evs[i]["ev"]))
                del evs[i]
                return evs
    return evs



def tlapm(module, deps, name, timeout=900):
    """check the proofs of spec/<module>.tla with the TLA+ proof system in a scratch copy; returns {ok, obligations, out}"""
    d = os.path.join(WORK, "tlapm", name)
    shutil.rmtree(d, ignore_errors=True)
    os.makedirs(d)
    for m in [module] + list(deps):
        shutil.copy(os.path.join(ROOT, "spec", m + ".tla"), d)
    t0 = time.time()
    try:
        p = subprocess.run(["timeout", str(timeout), "tlapm", "--threads", "8", module + ".tla"], cwd=d, capture_output=True, text=True)
    except FileNotFoundError:
        raise ToolError("tlapm is not installed")
    out = p.stdout + p.stderr
    m = re.search(r"All (\d+) obligations? proved", out)
    res = {"ok": bool(m) and p.returncode == 0, "obligations": int(m.group(1)) if m else 0, "out": out[-3000:], "seconds": round(time.time() - t0, 1), "module": module}
    shutil.rmtree(d, ignore_errors=True)
    return res

def validate_trace(module, cfg_text, name, events, timeout=900):
    """Write `events` as NDJSON, run the trace specification. Returns dict:
    accepted, matched (number of events consumed), rejected_event, drift, states."""
    ensure_work()
    events = selftest_corrupt(module, events)
    tdir = os.path.join(WORK, "traces")
    os.makedirs(tdir, exist_ok=True)
    tf = os.path.join(tdir, name + ".ndjson")
    with open(tf, "w") as f:
        for e in events:
            f.write(json.dumps(e) + "\n")
    if not events:
        return {"accepted": True, "matched": 0, "states": 0, "transitions": 0, "drift": 0, "file": tf, "wall": 0.0}
    r = tlc(module, cfg_text, name, trace=tf, timeout=timeout, keep_out=True)
    out = r.get("out", "")
    res = {"states": r["states"], "transitions": r["transitions"], "file": tf, "wall": r["wall"]}
    if r["rejected_at"] is not None:
        d = r["rejected_at"]
        res["accepted"] = False
        res["matched"] = d - 1
        res["rejected_event"] = events[d - 1] if d - 1 < len(events) else None
    elif r["ok"]:
        res["accepted"] = True
        res["matched"] = len(events)
    elif r["violated"]:
        res["accepted"] = False
        res["matched"] = max(r["diameter"] - 1, 0)
        res["violated"] = r["violated"]
        res["rejected_event"] = events[res["matched"] - 1] if 0 < res["matched"] <= len(events) else None
    else:
        sys.stderr.write(out[-3000:])
        raise ToolError("trace validation of %s failed without verdict" % name)
    res["drift"] = r["drift"]
    return res


# ------------------------------------------------------------------ verdicts / evidence
def load_known():
    p = os.path.join(ROOT, "known_findings.json")
    if not os.path.exists(p):
        return []
    with open(p) as f:
        return [k for k in json.load(f).get("findings", []) if k.get("status", "open") == "open"]


class Report:
    def __init__(self, prop, tier):
        self.prop, self.tier = prop, tier
        self.t0 = time.time()
        self.violations = []      # (signature, detail dict)
        self.known_hits = {}
        self.drifts = []
        self.cov = {"states": 0, "transitions": 0, "traces_validated_against_impl": 0, "evaluations": 0,
                    "distinct_nontrivial": 0, "rule": "", "samples": [], "tlc_runs": []}
        self.assumptions = []
        self.known = [k for k in load_known() if k["property"] == prop]

    def add_tlc(self, r, what):
        self.cov["states"] += r.get("states", 0)
        self.cov["transitions"] += r.get("transitions", 0)
        self.cov["tlc_runs"].append({"what": what, "states": r.get("states", 0), "transitions": r.get("transitions", 0),
                                     "wall_s": round(r.get("wall", 0), 1)})

    def violation(self, signature, detail):
        """signature: stable text identifying the failing input class / site / history"""
        for k in self.known:
            if re.search(k["signature"], signature):
                self.known_hits.setdefault(k["signature"], {"what": k["what"], "n": 0})
                self.known_hits[k["signature"]]["n"] += 1
                return False
        self.violations.append((signature, detail))
        return True

    def drift(self, text):
        self.drifts.append(text)

    def finish(self):
        os.makedirs(EVIDENCE, exist_ok=True)
        for sig, h in sorted(self.known_hits.items()):
            print("KNOWN-FINDING: property=%s %s [%d case(s), signature %s]" % (self.prop, h["what"], h["n"], sig))
        for d in sorted(set(self.drifts))[:20]:
            print("POLICY-DRIFT: property=%s %s" % (self.prop, d))
        rc = 0
        if self.violations:
            rc = 1
            rdir = os.path.join(REPLAYS, self.prop)
            os.makedirs(rdir, exist_ok=True)
            seen = set()
            for i, (sig, detail) in enumerate(self.violations):
                if sig in seen:
                    continue
                seen.add(sig)
                if len(seen) > 10:
                    break
                path = os.path.join(rdir, "%s_%s_%d.json" % (self.tier, time.strftime("%H%M%S"), i))
                with open(path, "w") as f:
                    json.dump({"property": self.prop, "signature": sig, "seed": SEED, "detail": detail}, f, indent=1, default=str)
                print("VIOLATION property=%s replay=%s" % (self.prop, path))
                log("  signature: %s" % sig)
        ev = {
            "property_id": self.prop, "tier": self.tier, "seed": SEED, "level": "model_checking",
            "coverage": self.cov, "assumptions": self.assumptions, "wall_s": round(time.time() - self.t0, 1),
            "violations": len(self.violations),
            "known_findings_hit": {k: v["n"] for k, v in self.known_hits.items()},
            "policy_drift": sorted(set(self.drifts))[:20],
        }
        if not self.cov["samples"]:
            self.cov["samples"] = ["(none)"]
        with open(os.path.join(EVIDENCE, self.prop + ".json"), "w") as f:
            json.dump(ev, f, indent=1, default=str)
        return rc
