"""End-to-end histories against the root module Jubako.tla: create in some packaging, then concat,
prefix, removal / replacement of pack files, relocation and damage to the bytes of a pack; after
every operation the real reader's answers (open, every content pack, container check) must be the
ones Jubako.tla derives from the state of the directory.  Used as an extra stage of the C04 check
(CheckIsSound) and of the C10 check (ReadIsLogicalOrReported)."""
import json
import os
import random
import shutil

import common as C
import jbkdec
import logical as L
import p_integrity as PI
import p_packaging as PP

TRACE_CFG = """CONSTANTS
  ContentPacks = {"c1", "c2", "c3"}
  Main = "c1"
  MaxOps = 99
SPECIFICATION TraceSpec
POSTCONDITION TraceAccepted
CHECK_DEADLOCK FALSE
"""
MC_CFG = """CONSTANTS
  ContentPacks = {"c1", "c2"}
  Main = "c1"
  MaxOps = %d
SPECIFICATION Spec
INVARIANTS ReadIsLogicalOrReported CheckIsSound RelocationIsNeutral
CHECK_DEADLOCK FALSE
"""
WHERE = {("m", "structure"): "m.header", ("m", "exempt"): "m.infos", ("d", "structure"): "d.header",
         ("c", "structure"): "c.infos", ("c", "content"): "c.data"}


def damage_pack(world, ident, kind, rng):
    """alter one byte of pack `ident` in every file that holds it; returns True if something was altered"""
    uuid = world.uuid_of.get(ident)
    done = False
    for fn in sorted(os.listdir(world.dir)):
        p = os.path.join(world.dir, fn)
        if fn not in world.names or not os.path.isfile(p):
            continue
        keys = {u: i for u, i in world.ident.items()}
        fm = PI.FileMap(p, keys)
        letter = "c" if ident.startswith("c") else ident
        want = WHERE[(letter, kind)]
        cand = []
        for pos, o in enumerate(fm.owner):
            if o is None or o[0] != ident or o[5] != want:
                continue
            if kind == "exempt" and o[3] != "exempt":
                continue
            if kind != "exempt" and o[3] != "payload":
                continue
            cand.append(pos)
        if not cand:
            continue
        pos = rng.choice(cand)
        data = bytearray(fm.data)
        data[pos] ^= rng.choice([0x01, 0x10, 0x80])
        with open(p, "wb") as f:
            f.write(data)
        done = True
    return done


def stage(rep, prop, tier, binary):
    r = C.tlc("Jubako", MC_CFG % (3 if tier == "quick" else 4), "MC_Jubako_%s" % prop, timeout=1800)
    rep.add_tlc(r, "MC_Jubako (root composition)")
    if not r["ok"]:
        rep.violation("design: Jubako violates %s" % r["violated"], {"tlc": r.get("out", "")[-3000:]})
    rng = random.Random(C.SEED * 715827883 + int(prop[1:]))
    R = PP.Runner(prop + "_life", tier, rep, binary)
    R.prop = prop
    nhist = 24 if tier == "quick" else 300
    events, descs = [], {}
    k = 0
    for h in range(nhist):
        mode = ["one", "two", "none"][h % 3]
        scn = L.make_container(rng, 800 + h, n_entries=5, n_extras=2, concat=mode, comp=rng.choice(["none", "zstd", "lz4"]), sizes=[5, 40, 200, 700])
        w = R.create(scn, "life")
        if w is None:
            continue
        other = None
        entry = w.entry
        dam = {}
        history = []
        for step in range(rng.randrange(1, 6)):
            ops = ["damage", "damage", "remove", "dir", "setloc", "prefix", "concat"]
            op = rng.choice(ops)
            cfiles = {sym: fn for fn, sym in w.names.items() if sym in ("content", "x_c2", "x_c3") and os.path.isfile(os.path.join(w.dir, fn))}
            if op == "damage":
                ident = rng.choice(["m", "d", "c1", "c2", "c3"])
                # (raw damage to the exempt location bytes still breaks the block CRC: "exempt" is what a
                #  relocation does, with the CRC refreshed - exercised by the setloc operation)
                kind = rng.choice({"m": ["structure"], "d": ["structure"]}.get(ident, ["structure", "content"]))
                if dam.get(ident, "ok") not in ("ok", "exempt"):
                    continue
                if damage_pack(w, ident, kind, rng):
                    dam[ident] = kind
                    history.append(["damage", ident, kind])
            elif op in ("remove", "dir") and cfiles:
                sym = rng.choice(sorted(cfiles))
                p = os.path.join(w.dir, cfiles[sym])
                os.unlink(p)
                if op == "dir":
                    os.makedirs(p)
                history.append([op, sym])
            elif op == "concat" and "cat.jbk" not in w.names and not any(x[0] == "prefix" for x in history):
                # (tools::concat reads its inputs from their first byte: an embedded container is not an input it supports)
                files = [f for f in PP.loose_files(w)]
                order = [w.entry] + rng.sample([f for f in files if f != w.entry], rng.randrange(0, len(files)))
                out = os.path.join(w.dir, "cat.jbk")
                t = R.harness([{"kind": "tool", "id": "cat", "op": "concat", "inputs": [os.path.join(w.dir, f) for f in order], "out": out}], "cat")["cat"]
                te = next((e for e in t["events"] if e["ev"] == "Tool"), None)
                if te and te["res"] == "ok":
                    w.names["cat.jbk"] = "cat"
                    entry = "cat.jbk"
                    history.append(["concat", [w.names[f] for f in order]])
                elif not dam:
                    rep.violation("%s concat failed on undamaged files mode=%s" % (prop, mode), {"tool": te})
            elif op == "prefix":
                if any(x[0] == "prefix" for x in history):
                    continue
                dec = jbkdec.decode_file(os.path.join(w.dir, entry), check_hash=False)
                if dec["packs"] and dec["packs"][0]["kind"] == "C":
                    PP.prefix_file(os.path.join(w.dir, entry), rng.choice([1, 63, 64, 4096]), rng)
                    history.append(["prefix"])
            elif op == "setloc":
                ident = rng.choice(["c1", "c2", "c3"])
                if dam.get("m", "ok") == "structure" or any(x[0] == "prefix" for x in history):
                    continue
                loc = rng.choice(["moved.jbkc", "a", "é" * 10])
                if os.path.exists(os.path.join(w.dir, loc)):
                    continue
                path = os.path.join(w.dir, entry)
                t = R.harness([{"kind": "tool", "id": "sl", "op": "set_location", "file": path, "uuid": w.uuid_of[ident], "loc": loc}], "sl")["sl"]
                te = next((e for e in t["events"] if e["ev"] == "Tool"), None)
                if te and te["res"] == "ok" and te["out"].get("found"):
                    old = te["out"]["old"]
                    if old and os.path.isfile(os.path.join(w.dir, old)):
                        dold = jbkdec.decode_file(os.path.join(w.dir, old), check_hash=False)
                        if any(pk["uuid"] == w.uuid_of[ident] for pk in jbkdec.all_packs(dold)):
                            shutil.move(os.path.join(w.dir, old), os.path.join(w.dir, loc))
                            w.names[loc] = w.names.pop(old)
                    history.append(["setloc", ident, loc])
            else:
                continue
            # observe after the operation
            k += 1
            sid = "L%d" % k
            descs[sid] = {"mode": mode, "history": list(history)}
            evs = w.snapshot(sid, entry, mode, prefix_files=(entry,) if any(x[0] == "prefix" for x in history) else ())
            for ident, kind in dam.items():
                evs.append({"ev": "Dam", "scn": sid, "pack": ident, "kind": kind})
            req = L.dump_request(scn, os.path.join(w.dir, entry), did=sid)
            run = R.harness([req], "dump")[sid]
            d = next((e for e in run["events"] if e["ev"] == "Dump"), None)
            if run["status"] != "ok" or d is None:
                evs.append({"ev": "Open", "scn": sid, "res": run["status"]})
            else:
                evs.append({"ev": "Open", "scn": sid, "res": "ok" if d["open"] == "ok" else ("err" if d["open"] == "err" else d["open"]), "err": d.get("err", "")[:100]})
                if d["open"] == "ok":
                    exp = L.flatten(L.expected_dump(scn))
                    got = L.flatten(d["dump"])
                    for pid, ident in ((1, "c1"), (2, "c2"), (3, "c3")):
                        pk = next((x for x in d["dump"]["contents"] if x["pack"] == pid), {"res": "err"})
                        if pk["res"] == "missing":
                            res = "missing"
                        elif pk["res"] != "ok":
                            res = "err"
                        else:
                            keys = [x for x in exp if x.startswith("pack/%d/" % pid)]
                            errs = [x for x in keys if x.endswith("/res") and got.get(x) not in ("ok",)]
                            diff = [x for x in keys if got.get(x) != exp[x] and not (x.endswith("/bytes") and (exp[x] is None or got.get(x) is None))]
                            res = "logical" if not diff else ("err" if errs and len(errs) * 3 >= len(diff) else "differs")
                        evs.append({"ev": "Obs", "scn": sid, "pack": ident, "res": res})
                    chk = d["dump"]["check"]
                    evs.append({"ev": "Check", "scn": sid, "res": "true" if chk is True else ("false" if chk is False else "err")})
            events += evs
            if len(rep.cov["samples"]) < 4 and len(history) >= 2:
                rep.cov["samples"].append({"history": list(history), "mode": mode, "trace": evs[-6:]})
    import p_entries as E
    E.validate_all(rep, prop, [{"id": k_, "desc": v} for k_, v in descs.items()], events, "JubakoTrace", TRACE_CFG,
                   sigf=lambda s: "end-to-end " + json.dumps(s["desc"], sort_keys=True)[:300])
    rep.cov["lifecycle_steps"] = len(descs)
    shutil.rmtree(R.base, ignore_errors=True)
    return len(descs)
