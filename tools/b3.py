"""Pure-Python BLAKE3 (hash mode only) and CRC-32C as jubako uses it.

Independent of the library under test: written from the BLAKE3 paper / reference layout.
Slow (about 0.3 MB/s); jbkdec.py uses the codec helper for large inputs and this for the rest
and as a cross-check of the helper.
"""
import struct

IV = (0x6A09E667, 0xBB67AE85, 0x3C6EF372, 0xA54FF53A,
      0x510E527F, 0x9B05688C, 0x1F83D9AB, 0x5BE0CD19)
PERM = (2, 6, 3, 10, 7, 0, 4, 13, 1, 11, 12, 5, 9, 14, 15, 8)
CHUNK_START, CHUNK_END, PARENT, ROOT = 1, 2, 4, 8
M32 = 0xFFFFFFFF


def _compress(cv, m, counter, block_len, flags):
    s = [cv[0], cv[1], cv[2], cv[3], cv[4], cv[5], cv[6], cv[7],
         IV[0], IV[1], IV[2], IV[3],
         counter & M32, (counter >> 32) & M32, block_len, flags]
    m = list(m)

    def g(a, b, c, d, x, y):
        sa, sb, sc, sd = s[a], s[b], s[c], s[d]
        sa = (sa + sb + x) & M32
        sd ^= sa
        sd = ((sd >> 16) | (sd << 16)) & M32
        sc = (sc + sd) & M32
        sb ^= sc
        sb = ((sb >> 12) | (sb << 20)) & M32
        sa = (sa + sb + y) & M32
        sd ^= sa
        sd = ((sd >> 8) | (sd << 24)) & M32
        sc = (sc + sd) & M32
        sb ^= sc
        sb = ((sb >> 7) | (sb << 25)) & M32
        s[a], s[b], s[c], s[d] = sa, sb, sc, sd

    for r in range(7):
        g(0, 4, 8, 12, m[0], m[1])
        g(1, 5, 9, 13, m[2], m[3])
        g(2, 6, 10, 14, m[4], m[5])
        g(3, 7, 11, 15, m[6], m[7])
        g(0, 5, 10, 15, m[8], m[9])
        g(1, 6, 11, 12, m[10], m[11])
        g(2, 7, 8, 13, m[12], m[13])
        g(3, 4, 9, 14, m[14], m[15])
        if r < 6:
            m = [m[PERM[i]] for i in range(16)]
    for i in range(8):
        s[i] ^= s[i + 8]
        s[i + 8] ^= cv[i]
    return s


def _words(block):
    block = block + b"\0" * (64 - len(block))
    return struct.unpack("<16I", block)


def _chunk_output(chunk, counter):
    """returns (cv_in, block_words, counter, block_len, flags) of the chunk's last block"""
    cv = IV
    n = len(chunk)
    nblocks = max(1, (n + 63) // 64)
    for i in range(nblocks):
        block = chunk[i * 64:(i + 1) * 64]
        flags = 0
        if i == 0:
            flags |= CHUNK_START
        if i == nblocks - 1:
            flags |= CHUNK_END
            return (cv, _words(block), counter, len(block), flags)
        cv = tuple(_compress(cv, _words(block), counter, 64, flags)[:8])


def _out_cv(o):
    return tuple(_compress(o[0], o[1], o[2], o[3], o[4])[:8])


def _parent_output(l, r):
    return (IV, tuple(l) + tuple(r), 0, 64, PARENT)


def blake3(data):
    data = bytes(data)
    n = len(data)
    nchunks = max(1, (n + 1023) // 1024)
    stack = []  # (cv, subtree chunk count)
    out = None
    for c in range(nchunks):
        o = _chunk_output(data[c * 1024:(c + 1) * 1024], c)
        if c == nchunks - 1:
            out = o
            break
        cv = _out_cv(o)
        total = c + 1
        while total & 1 == 0:
            cv = _out_cv(_parent_output(stack.pop(), cv))
            total >>= 1
        stack.append(cv)
    while stack:
        out = _parent_output(stack.pop(), _out_cv(out))
    w = _compress(out[0], out[1], 0, out[3], out[4] | ROOT)
    return struct.pack("<8I", *w[:8])


# CRC-32C, poly 0x1EDC6F41, init 0xFFFFFFFF, not reflected, no final xor; stored big-endian.
_T = []
for _i in range(256):
    _c = _i << 24
    for _ in range(8):
        _c = ((_c << 1) ^ 0x1EDC6F41) & M32 if _c & 0x80000000 else (_c << 1) & M32
    _T.append(_c)
_T = tuple(_T)


def crc32c_jbk(data):
    crc = M32
    t = _T
    for b in data:
        crc = ((crc << 8) & M32) ^ t[(crc >> 24) ^ b]
    return crc


if __name__ == "__main__":
    import sys
    d = open(sys.argv[1], "rb").read()
    print(blake3(d).hex())
