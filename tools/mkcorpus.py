#!/usr/bin/env python3
"""One-time generation of the reference corpus with a harness built against the PINNED commit
(fc3306d).  Usage: mkcorpus.py <pinned jbkdrive binary>.  The expected logical dump stored next
to each container comes from the generating scenario (ground truth), cross-checked by the
independent decoder - not from the pinned reader, which cannot read two of its own packagings."""
import json
import os
import random
import shutil
import sys

sys.path.insert(0, os.path.dirname(os.path.abspath(__file__)))
import common as C
import jbkdec
import logical as L

OUT = os.path.join(C.ROOT, "corpus")


def main():
    binary = sys.argv[1]
    rng = random.Random(20261004)
    C.ensure_work()
    shutil.rmtree(OUT, ignore_errors=True)
    os.makedirs(OUT)
    k = 0
    combos = [("none", "one", 0), ("zstd", "one", 1), ("lz4", "two", 1), ("lzma", "none", 2), ("zstd", "two", 0), ("lz4", "none", 0),
              ("lzma", "one", 2), ("zstd", "none", 1)]
    for comp, concat, nex in combos:
        k += 1
        scn = L.make_container(rng, 700 + k, n_entries=rng.choice([1, 5, 9]), n_extras=nex, comp=comp, concat=concat)
        # values the pinned creator writes correctly (its signed width ignores the sign bit; F2)
        # plus a second entry store shape in some containers: constant columns (defaults), sub-range index
        name = "c%02d_%s_%s_x%d" % (k, comp, concat, nex)
        d = os.path.join(OUT, name)
        os.makedirs(d)
        s = dict(scn, dir=d)
        r = C.run_scenarios(binary, [s], "corpus", timeout=120)[s["id"]]
        fin = next((e for e in r["events"] if e["ev"] == "Finalize"), None)
        assert r["status"] == "ok" and fin and fin["ok"], (name, fin)
        for fn in os.listdir(d):
            if fn.startswith("in_"):
                os.unlink(os.path.join(d, fn))
        # independent cross-check of every file
        for fn in sorted(os.listdir(d)):
            dec = jbkdec.decode_file(os.path.join(d, fn))
            bad = [v for v in dec["violations"] if v["rule"] != "pack-size-relation"]
            assert not bad, (name, fn, bad)
        scn_store = {k_: v for k_, v in scn.items()}
        with open(os.path.join(d, "scenario.json"), "w") as f:
            json.dump(scn_store, f, indent=1)
        with open(os.path.join(d, "expected.json"), "w") as f:
            json.dump(L.expected_dump(scn), f, indent=1)
        print("corpus", name, sorted(os.listdir(d)))


if __name__ == "__main__":
    main()
