"""C09: creation is all-or-nothing at the destination.  AtomicCreate.tla exhaustively (every crash
and I/O error between any two steps of the three packagings); the real BasicCreator run in a child
process (1) under strace: its file-system protocol, (2) killed / made to fail at injected points
(write-size limit at byte N with SIGXFSZ or EFBIG; k-th write / rename / open system call killed
or failed through strace), the destination directory classified afterwards by really opening
what is there.  AtomicCreateTrace.tla gives the verdict."""
import json
import os
import random
import re
import shutil
import subprocess
import time

import common as C
import jbkdec
import logical as L

TRACE_CFG = """SPECIFICATION TraceSpec
INVARIANT Done
POSTCONDITION TraceAccepted
CHECK_DEADLOCK FALSE
"""


def mc_cfg(mode, nextra, pre):
    return """CONSTANTS
  Mode = "%s"
  NExtra = %d
  PreExisting = %s
  WriteInPlace = {}
  EntryFirst = FALSE
SPECIFICATION Spec
INVARIANTS DestAllOrNothing EntryPointLast NoPartialAtDest
CHECK_DEADLOCK FALSE
""" % (mode, nextra, "TRUE" if pre else "FALSE")


class Job:
    def __init__(self, binary, base, scn, pre):
        self.binary, self.base, self.scn, self.pre = binary, base, scn, pre
        self.dir = os.path.join(base, "dest")
        self.scnfile = os.path.join(base, "scn.ndjson")
        s = dict(scn, dir=self.dir)
        for o in s["ops"]:
            o["src"] = "mem"
        for ex in s["extras"]:
            for o in ex["ops"]:
                o["src"] = "mem"
        with open(self.scnfile, "w") as f:
            f.write(json.dumps(s) + "\n")
        self.previous = {}

    def reset(self):
        shutil.rmtree(self.dir, ignore_errors=True)
        os.makedirs(self.dir)
        for fn, b in self.previous.items():
            with open(os.path.join(self.dir, fn), "wb") as f:
                f.write(b)

    def run(self, prefix=None, env_extra=None, timeout=60):
        env = dict(os.environ, VERIF_POOL=C.POOL, VERIF_NO_TRACE="1", RUST_BACKTRACE="0")
        if env_extra:
            env.update(env_extra)
        cmd = (prefix or []) + [self.binary, "run", self.scnfile]
        try:
            p = subprocess.run(cmd, env=env, capture_output=True, timeout=timeout)
            return p.returncode, p.stderr.decode("utf-8", "replace")[-400:]
        except subprocess.TimeoutExpired:
            return "timeout", ""

    def outputs(self):
        """destination file names after a complete run (entry point first)"""
        names = sorted(fn for fn in os.listdir(self.dir) if not fn.startswith(".tmp"))
        entry = self.scn["out"]
        return [entry] + [n for n in names if n != entry]


def classify(job, expected_names, binary):
    """class of every destination path + whether the entry point's references are complete"""
    classes = {}
    for fn in expected_names:
        p = os.path.join(job.dir, fn)
        if not os.path.exists(p):
            classes[fn] = "absent"
            continue
        with open(p, "rb") as f:
            data = f.read()
        if fn in job.previous and data == job.previous[fn]:
            classes[fn] = "previous"
            continue
        dec = jbkdec.decode_file(p, data=data, check_hash=True)
        packs = jbkdec.all_packs(dec)
        ok = bool(packs) and not dec["violations"] and all(pk.get("checkOk") in (True, None) for pk in packs) and packs[0].get("physEnd") == len(data)
        classes[fn] = "complete" if ok else "other"
    entry = job.scn["out"]
    refs_complete = True
    if classes.get(entry) == "complete":
        # the entry point names its packs: they must be there, complete, and the whole container must read back
        req = L.dump_request(job.scn, os.path.join(job.dir, entry), did="after")
        r = C.run_scenarios(binary, [req], "C09_after", timeout=60)["after"]
        d = next((e for e in r["events"] if e["ev"] == "Dump"), None)
        if r["status"] != "ok" or not d or d["open"] != "ok":
            refs_complete = False
        else:
            df = L.diff(L.expected_dump(job.scn), d["dump"])
            refs_complete = not df
    others = [f for f in os.listdir(job.dir) if f not in expected_names and not f.startswith(".tmp")]
    return classes, refs_complete, others


_SHIM = []


def short_write_shim():
    """harness/shim/shortwrite.c compiled into the work directory (None when no C compiler is there: the variant is skipped)"""
    if _SHIM:
        return _SHIM[0]
    out = os.path.join(C.WORK, "libshortwrite.so")
    src = os.path.join(C.ROOT, "harness", "shim", "shortwrite.c")
    try:
        subprocess.run(["cc", "-O2", "-shared", "-fPIC", "-o", out, src, "-ldl"], check=True, capture_output=True, timeout=120)
        _SHIM.append(out)
    except Exception as e:
        C.log("[C09] no short-write variant: the shim cannot be compiled (%s)" % str(e)[:80])
        _SHIM.append(None)
    return _SHIM[0]


OPEN_RE = re.compile(r'^(\d+)\s+openat\(AT_FDCWD, "([^"]*)", ([A-Z_|]+)(?:, [0-7]+)?\) = (\d+)')
RENAME_RE = re.compile(r'^(\d+)\s+renameat2?\(AT_FDCWD, "([^"]*)", AT_FDCWD, "([^"]*)"(?:, \w+)?\) = 0')
RENAME2_RE = re.compile(r'^(\d+)\s+rename\("([^"]*)", "([^"]*)"\) = 0')
WRITE_RE = re.compile(r'^(\d+)\s+p?write(?:64)?\((\d+), .* = (\d+)$')
UNLINK_RE = re.compile(r'^(\d+)\s+unlink(?:at)?\((?:AT_FDCWD, )?"([^"]*)"')


def protocol_events(job, sid, strace_text, dest_names):
    """Open / Write / Rename events of the destination directory, from strace"""
    evs = []
    fds = {}
    entry = job.scn["out"]
    nsys = 0
    for line in strace_text.splitlines():
        m = OPEN_RE.match(line)
        if m:
            path, flags, fd = m.group(2), m.group(3).split("|"), int(m.group(4))
            if not os.path.abspath(path).startswith(job.dir):
                continue
            nsys += 1
            fn = os.path.basename(path)
            role = "dest" if fn in dest_names else ("temp" if fn.startswith(".tmp") else "other")
            fds[fd] = path
            evs.append({"ev": "Open", "scn": sid, "path": path, "role": role, "write": "O_WRONLY" in flags or "O_RDWR" in flags,
                        "trunc": "O_TRUNC" in flags, "creat": "O_CREAT" in flags, "excl": "O_EXCL" in flags,
                        "inDestDir": os.path.dirname(os.path.abspath(path)) == job.dir})
            continue
        m = RENAME_RE.match(line) or RENAME2_RE.match(line)
        if m:
            src, dst = m.group(2), m.group(3)
            if not os.path.abspath(dst).startswith(job.dir):
                continue
            nsys += 1
            fn = os.path.basename(dst)
            evs.append({"ev": "Rename", "scn": sid, "from": src, "to": dst, "toRole": "entry" if fn == entry else ("dest" if fn in dest_names else "other")})
            continue
        m = WRITE_RE.match(line)
        if m and int(m.group(2)) in fds:
            nsys += 1
            path = fds[int(m.group(2))]
            fn = os.path.basename(path)
            role = "dest" if fn in dest_names else ("temp" if fn.startswith(".tmp") else "other")
            evs.append({"ev": "Write", "scn": sid, "path": path, "role": role, "n": int(m.group(3))})
    return evs, nsys


def run(prop, tier):
    rep = C.Report(prop, tier)
    rng = random.Random(C.SEED * 472882027 + 9)
    binary = C.build("debug")
    for mode in ("one", "two", "none"):
        for nex in (0, 2):
            for pre in (False, True):
                r = C.tlc("AtomicCreate", mc_cfg(mode, nex, pre), "MC_AtomicCreate_%s_%d_%d" % (mode, nex, pre), workers=2, timeout=600)
                rep.add_tlc(r, "MC_AtomicCreate %s extras=%d pre=%s" % (mode, nex, pre))
                if not r["ok"]:
                    rep.violation("design: AtomicCreate(%s,%d,%s) violates %s" % (mode, nex, pre, r["violated"]), {"tlc": r.get("out", "")[-2000:]})
    C.log("[%s] design level done %.0fs" % (prop, time.time() - rep.t0))
    base = os.path.join(C.WORK, "run_%s" % prop)
    shutil.rmtree(base, ignore_errors=True)
    os.makedirs(base)
    events, runs_desc = [], {}
    n_inj = 0
    nontrivial = set()
    k = 0
    for mode in ("one", "two", "none"):
        nex = 1 if mode != "one" else rng.choice([0, 1])
        # (value stores larger than the creator's 8 KiB write buffer - a flush and a direct write inside a store - and few contents:
        #  strace counts the k-th call per thread, the writes of the cluster-writer thread must not shadow the main thread's)
        scn = L.make_container(rng, 900 + k, n_entries=10, n_extras=nex, comp=rng.choice(["none", "zstd", "lz4"]), concat=mode, sizes=[0, 1, 5, 40])
        # one incompressible content forced into a compressed cluster: a block of more than 8 KiB written in one call by the writer thread
        scn["ops"].append({"cid": 900000 + k, "size": 20000, "cls": "rand", "hint": "yes"})
        if scn["comp"] == "none" and mode != "one":
            scn["comp"], scn["level"] = "zstd", 1
        for j, e in enumerate(scn["dirpack"]["entries"]):
            e["values"]["name"] = {"a": list(b"entry-%04d-" % j + bytes([97 + j % 26]) * 1100)}
            if "extra" in e["values"]:
                e["values"]["extra"] = {"a": list(b"-> entry-%04d " % (j // 2) + bytes([65 + j % 26]) * 2500)}
        prev_scn = L.make_container(rng, 950 + k, n_entries=2, n_extras=nex, comp="none", concat=mode)
        prev_scn["out"] = scn["out"]
        for a, b in zip(prev_scn["extras"], scn["extras"]):
            a["file"] = b["file"]
        for pre in (False, True):
            k += 1
            job = Job(binary, base, scn, pre)
            # the previous complete container at the same destinations
            if pre:
                pj = Job(binary, base, prev_scn, False)
                pj.reset()
                rc, err = pj.run()
                if rc != 0:
                    raise C.ToolError("cannot create the pre-existing container: %s" % err)
                job = Job(binary, base, scn, pre)
                job.previous = {fn: open(os.path.join(job.dir, fn), "rb").read() for fn in os.listdir(job.dir) if not fn.startswith(".tmp")}
            # (1) clean run under strace
            job.reset()
            st = os.path.join(base, "strace.txt")
            rc, err = job.run(prefix=["strace", "-f", "-o", st, "-e", "trace=openat,write,pwrite64,rename,renameat,renameat2,unlink,unlinkat,ftruncate,linkat"])
            if rc != 0:
                rep.violation("%s creation failed without any fault mode=%s pre=%s rc=%s %s" % (prop, mode, pre, rc, err[-120:]), {"scn": scn})
                continue
            names = job.outputs()
            sid = "run%d" % k
            runs_desc[sid] = {"mode": mode, "pre": pre, "extras": nex}
            sttext = open(st).read()
            pe, nsys = protocol_events(job, sid, sttext, names)
            # the injection counter sees every matching call of the process (loader, scenario file, ...)
            nsys = len(re.findall(r"^\d+\s+(?:openat|write|pwrite64|rename|renameat|renameat2)\(", sttext, re.M))
            events.append({"ev": "Run", "scn": sid, "mode": mode, "pre": pre, "entry": os.path.join(job.dir, names[0]),
                           "refs": [os.path.join(job.dir, n) for n in names[1:]]})
            events += pe
            classes, refs_ok, others = classify(job, names, binary)
            events.append({"ev": "After", "scn": sid, "variant": "none", "k": 0, "classes": [classes[n] for n in names], "entryClass": classes[names[0]],
                           "refsComplete": refs_ok, "names": names, "others": others})
            sizes = {n: os.path.getsize(os.path.join(job.dir, n)) for n in names}
            maxsize = max(sizes.values())
            # (2) injections
            # cumulative write offsets of every temp file = the boundaries worth hitting
            bounds = set()
            acc = {}
            for e in pe:
                if e["ev"] == "Write":
                    acc[e["path"]] = acc.get(e["path"], 0) + e["n"]
                    bounds.add(acc[e["path"]])
            if tier == "quick":
                points = sorted({b + d for b in bounds for d in (-1, 0, 1) if 0 <= b + d <= maxsize} | {0, 1, 63, 64, 65, maxsize})
                points = points[::max(1, len(points) // 50)]
            else:
                # every byte of a small container; for larger ones every write boundary +-2 and 4000 evenly spaced offsets
                points = sorted({b + d for b in bounds for d in (-2, -1, 0, 1, 2) if 0 <= b + d <= maxsize} | set(range(0, maxsize + 1, max(1, maxsize // 4000))) | {maxsize})
            plans = []
            for n_ in points:
                plans.append(("fsize-kill", n_, ["prlimit", "--fsize=%d" % n_], None))
                plans.append(("fsize-error", n_, ["prlimit", "--fsize=%d" % n_], {"VERIF_IGNORE_XFSZ": "1"}))
            ksys = list(range(1, nsys + 2)) if tier == "thorough" else sorted(set(list(range(1, min(nsys, 12))) + list(range(1, nsys + 2, max(1, nsys // 25))) + [nsys, nsys + 1]))
            for kk in ksys:
                plans.append(("sys-kill", kk, ["strace", "-f", "-o", "/dev/null", "-e",
                                               "inject=write,pwrite64,renameat,renameat2,rename,openat:signal=KILL:when=%d" % kk], None))
            # an error returned once by one call (a transient fault: the next call succeeds) must be reported, whichever call
            # it is - every k in both tiers: an error swallowed at one particular write is exactly what sampling misses
            nerr = len(re.findall(r"^\d+\s+(?:write|pwrite64|rename|renameat|renameat2)\(", sttext, re.M))
            for kk in range(1, nerr + 2):
                plans.append(("sys-error", kk, ["strace", "-f", "-o", "/dev/null", "-e",
                                                "inject=write,pwrite64,renameat,renameat2,rename:error=ENOSPC:when=%d" % kk], None))
            # a short write (the call writes a part of its buffer and says so): the k-th write to a regular file, every k.
            # POSIX allows it at any time; whoever uses write instead of write_all loses the rest silently
            shim = short_write_shim()
            if shim:
                nwr = len(re.findall(r"^\d+\s+write\(", sttext, re.M))
                for kk in range(1, nwr + 2):
                    plans.append(("short-write", kk, [], {"LD_PRELOAD": shim, "VERIF_SHORT_WRITE_AT": str(kk)}))
            t1 = time.time()
            for variant, kk, prefix, envx in plans:
                job.reset()
                rc, err = job.run(prefix=prefix, env_extra=envx, timeout=60)
                classes, refs_ok, others = classify(job, names, binary)
                n_inj += 1
                if rc == "timeout":
                    rep.violation("%s creation hangs under injection %s@%d mode=%s" % (prop, variant, kk, mode), {"variant": variant, "k": kk})
                isid = "%s_%s_%d" % (sid, variant, kk)
                runs_desc[isid] = {"mode": mode, "pre": pre, "variant": variant, "k": kk, "rc": rc}
                events.append({"ev": "After", "scn": isid, "variant": variant, "k": kk, "rc": str(rc), "classes": [classes[n] for n in names],
                               "entryClass": classes[names[0]], "refsComplete": refs_ok, "names": names, "others": others})
                nontrivial.add((mode, pre, variant, json.dumps(classes, sort_keys=True), str(rc)))
                if len(rep.cov["samples"]) < 4 and rc != 0 and kk > 3:
                    rep.cov["samples"].append({"mode": mode, "pre": pre, "variant": variant, "k": kk, "rc": rc, "after": classes,
                                               "leftover": sorted(os.listdir(job.dir))})
            C.log("[%s] mode=%s pre=%s: %d syscalls, %d injections %.0fs" % (prop, mode, pre, nsys, len(plans), time.time() - t1))
    import p_entries as E
    E.validate_all(rep, prop, [{"id": k_, "desc": v} for k_, v in runs_desc.items()], events, "AtomicCreateTrace", TRACE_CFG,
                   sigf=lambda s: json.dumps(s["desc"], sort_keys=True))
    rep.cov["traces_validated_against_impl"] = len(runs_desc)
    rep.cov["trace_events"] = len(events)
    rep.cov["evaluations"] = n_inj
    rep.cov["distinct_nontrivial"] = len(nontrivial)
    rep.cov["exhaustive"] = (tier == "thorough")
    rep.cov["rule"] = ("for each packaging x {no previous file, previous complete container at the destinations}: one clean run under strace (protocol), then the creator killed "
                       "(SIGXFSZ / SIGKILL) or made to fail (EFBIG / ENOSPC) at every write-size limit N (quick: write boundaries +-1; thorough: every byte 0..size) and at every k-th "
                       "write/rename/open system call; distinct = different (packaging, pre-state, variant, resulting directory state, exit status)")
    rep.assumptions += ["crash = process termination, not power loss", "strace's per-thread invocation counter: a k may be shadowed by another thread reaching its k-th call first"]
    shutil.rmtree(base, ignore_errors=True)
    return rep.finish()
