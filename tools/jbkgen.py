"""Python twin of harness/src/gen.rs: the bytes of content (cid, size, cls)."""
import os
import struct

_POOL = None


def pool():
    global _POOL
    if _POOL is None:
        p = os.environ.get("VERIF_POOL", "/verif/work/pool.bin")
        with open(p, "rb") as f:
            _POOL = f.read()
    return _POOL


def content(cid, size, cls):
    if cls == "zero":
        return bytes(size)
    hdr = b"C" + struct.pack("<II", cid, size & 0xFFFFFFFF) + cls[:1].encode()
    if cls == "low":
        block = b"jubako-%08x\n" % cid
        body = block * (size // len(block) + 1)
    elif cls == "rand":
        p = pool()
        o = (cid * 7919 + 13) % len(p)
        body = p[o:] + p * (size // len(p) + 1)
    elif cls == "pos":
        n = size // 4 + 2
        body = b"".join(struct.pack(">I", i) for i in range(n))
    else:
        raise ValueError(cls)
    return (hdr + body)[:size]
