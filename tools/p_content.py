"""C01 / C16 (and the runs C14 and C08 reuse): content insertion and retrieval.

spec -> code : every complete behaviour of MC_ContentPack becomes a scenario for the real creator
code -> spec : harness events + placement found by the independent decoder are validated by
               ContentPackTrace (property level, implementation constants); policy drift reported."""
import json
import os
import random
import shutil
import time
import zlib

import common as C
import jbkdec
import jbkgen

MIB = 1 << 20
ALGOS = {"none": 0, "lz4": 1, "lzma": 2, "zstd": 3}
LEVELS = {"lz4": [0, 3, 15], "lzma": [0, 6, 9], "zstd": [-22, 1, 5, 19, 22], "none": [0]}
ALL_LEVELS = {"lz4": list(range(0, 16)), "lzma": list(range(0, 10)), "zstd": [x for x in range(-22, 23)], "none": [0]}
BOUNDARY_SIZES = [0, 1, 2, 3, 100, 250, 251, 254, 255, 256, 257, 4095, 4096, 4097, 65530, 65535, 65536, 65537]


def mc_cfg(max_adds, cached, width_from_max=True, sizes="{0, 1, 3, 8, 9}", cids="{1}", replay=True, replay_max=3):
    return """CONSTANTS
  Radix = 4
  MaxBlobs = 3
  BlobIdxLimit = 4
  ClusterIdxLimit = 16
  ClusterSize = 8
  CompressingSet = {TRUE, FALSE}
  CachedSet = {%s}
  CheckHint = TRUE
  WidthFromMax = %s
  TrackHistory = TRUE
  Sizes = %s
  Cids = %s
  MaxAdds = %d
  Overhead = 3
  ReplayMax = %d
SPECIFICATION MCSpec
INVARIANTS TypeOK AddrInjective BlobsDense BlobLimit ClusterIdDense KindConsistent DataSizeExact
  AddrResolves AddrDistinctUnlessDedup CountExact CompSizeRule HintRespected DedupShares
  PolicyAllowed TailOK %s
CHECK_DEADLOCK FALSE
""" % ("TRUE" if cached else "FALSE", "TRUE" if width_from_max else "FALSE", sizes, cids, max_adds,
       replay_max, "Replay" if replay else "")


def trace_cfg(check_hint):
    return """CONSTANTS
  Radix = 256
  MaxBlobs = 4095
  BlobIdxLimit = 4096
  ClusterIdxLimit = 1048576
  ClusterSize = 4194304
  CompressingSet = {TRUE, FALSE}
  CachedSet = {TRUE, FALSE}
  CheckHint = %s
  WidthFromMax = TRUE
  TrackHistory = FALSE
SPECIFICATION TraceSpec
INVARIANTS TraceInv Done
POSTCONDITION TraceAccepted
CHECK_DEADLOCK FALSE
""" % ("TRUE" if check_hint else "FALSE")


# ------------------------------------------------------------------ scenario generation
def scn_from_replay(beh, k, unit, comp, level, cached, src_cycle, creator="pack"):
    ops = []
    for j, (i, kind) in enumerate(zip(beh["ins"], beh["kinds"])):
        size = i["size"] * unit
        if unit > 1 and i["size"] == 9:
            size = 8 * unit + 1
        # content class steers the entropy decision of `detect` towards the behaviour's choice
        cls = "low" if kind == "comp" else "rand"
        if i["hint"] != "detect":
            cls = ["low", "rand", "zero"][(k + j) % 3] if not cached else ["low", "rand"][(k + j) % 2]
        src = src_cycle[(k + j) % len(src_cycle)]
        ops.append({"cid": i["cid"] * 100 + (0 if cached else j), "size": size, "cls": cls, "hint": i["hint"],
                    "src": src, "origin": [0, 777, 4097][(k + j) % 3] if src == "range" else 0})
    if cached:
        # identical (cid,size) in the behaviour = identical content: keep cid/cls/size aligned
        for o, i in zip(ops, beh["ins"]):
            o["cid"] = i["cid"] * 100
            o["cls"] = "low"
    return {"kind": "content", "id": "r%d" % k, "comp": comp, "level": level, "creator": creator,
            "cached": cached, "ops": ops, "origin": "tlc", "behaviour": beh}


def random_scn(rng, k, big=False, cached=None):
    comp = rng.choice(["none", "lz4", "lzma", "zstd", "zstd"])
    level = rng.choice(LEVELS[comp])
    n = rng.choice([0, 1, 2, 3, 5, 8, 13, 40])
    cached = rng.random() < 0.3 if cached is None else cached
    ops = []
    for j in range(n):
        r = rng.random()
        if big and r < 0.15:
            size = rng.choice([MIB, 4 * MIB - 1, 4 * MIB, 4 * MIB + 1, 3 * MIB])
        elif r < 0.6:
            size = rng.choice(BOUNDARY_SIZES)
        else:
            size = rng.randrange(0, 3000)
        if cached and ops and rng.random() < 0.35:
            o = dict(rng.choice(ops))
            o["hint"] = rng.choice(["yes", "no", "detect"])
            ops.append(o)
            continue
        ops.append({"cid": j + 1, "size": size, "cls": rng.choice(["low", "rand", "rand", "zero"]),
                    "hint": rng.choice(["yes", "no", "detect"]),
                    "src": rng.choice(["mem", "mem", "file", "range"]),
                    "origin": rng.choice([1, 777, 1000, 4097, 123456])})
    return {"kind": "content", "id": "s%d" % k, "comp": comp, "level": level,
            "creator": rng.choice(["pack", "pack", "basic"]), "concat": rng.choice(["one", "two", "none"]), "cached": cached,
            "ops": ops, "origin": "random", "free_data": [rng.randrange(256) for _ in range(rng.choice([0, 0, 1, 24]))]}


def long_scns(tier):
    out = []
    # crossing the 4095-blob limit, raw and compressed, and interleaved
    for name, comp, hints in ([("blobs_comp", "zstd", ["yes"]), ("blobs_rawhint", "lz4", ["no"])] if tier == "quick" else
                              [("blobs_raw", "none", ["detect"]), ("blobs_comp", "zstd", ["yes"]), ("blobs_rawhint", "zstd", ["no"]),
                               ("blobs_mixed", "lz4", ["yes", "no"])]):
        n = 4100 if name != "blobs_mixed" else 8200
        ops = [{"cid": j + 1, "size": (j % 7), "cls": "low", "hint": hints[j % len(hints)]} for j in range(n)]
        out.append({"kind": "content", "id": name, "comp": comp, "level": 1 if comp == "zstd" else 0,
                    "ops": ops, "origin": "long"})
    # several compressed clusters of 1 MiB items, each compression
    for comp in (["zstd", "lz4"] if tier == "quick" else ["zstd", "lz4", "lzma"]):
        ops = [{"cid": j + 1, "size": MIB, "cls": "low", "hint": "yes"} for j in range(9)]
        out.append({"kind": "content", "id": "mib9_" + comp, "comp": comp, "level": {"zstd": 1, "lz4": 0, "lzma": 0}[comp],
                    "ops": ops, "origin": "long"})
    # width boundaries of the raw cluster: 1 -> 2 -> 3 bytes (and 4 in thorough)
    sizes = [200, 55, 1, 65000, 279, 1, 1000]
    if tier == "thorough":
        sizes += [16 * MIB - 67000, 463, 1, 5]
    ops = [{"cid": j + 1, "size": s, "cls": "rand", "hint": "no"} for j, s in enumerate(sizes)]
    out.append({"kind": "content", "id": "widths_raw", "comp": "zstd", "level": 1, "ops": ops, "origin": "long"})
    # a cluster of more than 16 MiB: 4-byte offsets in its tail (one raw content, and one compressible content in a compressed cluster)
    out.append({"kind": "content", "id": "width4_raw", "comp": "lz4", "level": 0, "origin": "long",
                "ops": [{"cid": 1, "size": 7, "cls": "low", "hint": "no"}, {"cid": 2, "size": 16 * MIB + 5, "cls": "low", "hint": "no"},
                        {"cid": 3, "size": 300, "cls": "rand", "hint": "no"}, {"cid": 4, "size": 16 * MIB + 1, "cls": "zero", "hint": "yes"}]})
    # incompressible data forced into compressed clusters just under each width boundary
    for comp in ["zstd", "lz4", "lzma"]:
        for size in ([250, 255, 65530] if tier == "quick" else [248, 250, 253, 255, 65520, 65530, 65535]):
            out.append({"kind": "content", "id": "incompr_%s_%d" % (comp, size), "comp": comp,
                        "level": LEVELS[comp][1], "ops": [{"cid": 1, "size": size, "cls": "rand", "hint": "yes"}],
                        "origin": "long"})
    # empty contents at every position, duplicates without the dedup adder
    ops = []
    for j in range(12):
        ops.append({"cid": 5, "size": 0 if j % 2 == 0 else 9, "cls": "low", "hint": ["yes", "no", "detect"][j % 3]})
    out.append({"kind": "content", "id": "empties_dups", "comp": "lzma", "level": 0, "ops": ops, "origin": "long"})
    out.append({"kind": "content", "id": "nothing", "comp": "zstd", "level": 5, "ops": [], "origin": "long"})
    out.append({"kind": "content", "id": "nothing_basic", "comp": "none", "level": 0, "creator": "basic", "ops": [], "origin": "long"})
    if tier == "thorough":
        for comp in ["lz4", "lzma", "zstd"]:
            for lv in ALL_LEVELS[comp]:
                ops = [{"cid": j + 1, "size": s, "cls": c, "hint": h} for j, (s, c, h) in enumerate(
                    [(3000, "low", "yes"), (255, "rand", "yes"), (70000, "low", "detect"), (0, "low", "yes"),
                     (5000, "rand", "detect"), (300000, "low", "yes")])]
                out.append({"kind": "content", "id": "lvl_%s_%d" % (comp, lv), "comp": comp, "level": lv, "ops": ops,
                            "origin": "levels"})
    return out


def make_scenarios(tier, replays, rng):
    scns = []
    # spec -> code: TLC behaviours (all of them with unit 1 up to a cap, a sample with the real unit)
    combos = []
    for comp in ["none", "lz4", "lzma", "zstd"]:
        for lv in LEVELS[comp]:
            combos.append((comp, lv))
    cap_small = 400 if tier == "quick" else 6000
    cap_big = 12 if tier == "quick" else 150
    for cached, behs in replays.items():
        behs = list(behs)
        rng.shuffle(behs)
        for k, beh in enumerate(behs[:cap_small]):
            comp, lv = combos[k % len(combos)]
            if beh["compressing"] != (comp != "none"):
                comp, lv = ("none", 0) if not beh["compressing"] else combos[1 + k % (len(combos) - 1)]
            s = scn_from_replay(beh, k, 1, comp, lv, cached, ["mem", "mem", "file", "range"],
                                creator="basic" if k % 9 == 8 else "pack")
            s["id"] = "r%s%d" % ("c" if cached else "p", k)
            scns.append(s)
        big = [b for b in behs if b["compressing"] and any(i["size"] >= 8 for i in b["ins"])][:cap_big]
        for k, beh in enumerate(big):
            comp, lv = [("zstd", 1), ("lz4", 0), ("zstd", -22)][k % 3]
            s = scn_from_replay(beh, k, 512 * 1024, comp, lv, cached, ["mem", "file", "range"])
            s["id"] = "R%s%d" % ("c" if cached else "p", k)
            scns.append(s)
    nrand = 60 if tier == "quick" else 1500
    for k in range(nrand):
        scns.append(random_scn(rng, k, big=(tier == "thorough" and k % 10 == 0)))
    scns += long_scns(tier)
    return scns


# ------------------------------------------------------------------ run + annotate
def find_content_pack(dec):
    for pk in jbkdec.all_packs(dec):
        if pk["kind"] == "c":
            return pk
    return None


def annotate(s, run, want_verbatim):
    """Returns (events for TLC, problems[list of (signature, detail)], decoded pack or None)."""
    evs, problems = [], []
    hv = run["events"]
    status = run["status"]
    sid = s["id"]
    new = next((e for e in hv if e["ev"] == "New"), None)
    adds = [e for e in hv if e["ev"] == "Add"]
    fin = next((e for e in hv if e["ev"] == "Finalize"), None)
    desc = {"scn": {k: v for k, v in s.items() if k != "behaviour"}}
    if len(s["ops"]) > 50:
        desc["scn"] = dict(desc["scn"], ops="%d ops, first: %s" % (len(s["ops"]), json.dumps(s["ops"][:3])))
    inputcls = "comp=%s cached=%s creator=%s" % (s["comp"], s.get("cached", False), s.get("creator", "pack"))
    if status != "ok":
        site = next((e.get("site", "") for e in reversed(hv) if e["ev"] == "PanicSite"), "")
        phase = "create" if fin is None else "read"
        problems.append(("%s %s %s site=%s %s ops=%s" % (phase, status, inputcls, site, s.get("origin"), opsig(s)),
                         dict(desc, status=status, stderr=run.get("stderr"), last=hv[-3:])))
        return evs, problems, None
    if fin is None or not fin.get("ok"):
        problems.append(("create failed %s site=%s ops=%s" % (inputcls, (fin or {}).get("site", ""), opsig(s)),
                         dict(desc, finalize=fin)))
        return evs, problems, None
    rp = next((e for e in hv if e["ev"] in ("ReadPanic", "ReadError")), None)
    if rp is not None:
        problems.append(("read %s %s site=%s ops=%s" % (rp["ev"], inputcls, rp.get("site", ""), opsig(s)),
                         dict(desc, read=rp)))
    dec = jbkdec.decode_file(fin["file"], check_hash=False)
    pk = find_content_pack(dec)
    if pk is None and s.get("creator") == "basic":
        # TwoFiles / NoConcat: the content pack lives in its own file next to the entry point
        alt = os.path.splitext(fin["file"])[0] + ".jbkc"
        if os.path.exists(alt):
            dec = jbkdec.decode_file(alt, check_hash=False)
            pk = find_content_pack(dec)
    bad = [v for v in dec["violations"] if v["rule"] != "pack-size-relation"]
    if pk is None or "infos" not in pk or any(not c.get("ok") for c in pk.get("clusters", [])) or \
            any(v["rule"].startswith("info-") for v in bad):
        problems.append(("layout %s %s ops=%s" % ((bad or [{"rule": "no-content-pack"}])[0]["rule"], inputcls, opsig(s)),
                         dict(desc, layout=bad[:5])))
        return evs, problems, None
    algo = ALGOS[s["comp"]]
    evs.append({"ev": "New", "scn": sid, "compressing": s["comp"] != "none", "cached": bool(s.get("cached"))})
    seen = set()
    for a in adds:
        if "idx" not in a:
            problems.append(("add failed %s ops=%s" % (inputcls, opsig(s)), dict(desc, add=a)))
            return [], problems, None
        idx = a["idx"]
        dup = bool(s.get("cached")) and idx in seen
        seen.add(idx)
        e = {"ev": "Add", "scn": sid, "cid": ckey(a["cid"], a["size"], a["cls"]), "size": a["size"], "hint": a["hint"], "idx": idx, "dup": dup,
             "kind": "raw", "cluster": -1, "blob": -1}
        if idx < len(pk["infos"]):
            cl, bl = pk["infos"][idx]
            e["cluster"], e["blob"] = cl, bl
            e["kind"] = "comp" if pk["clusters"][cl]["comp"] != 0 else "raw"
        evs.append(e)
    evs.append({"ev": "Finalize", "scn": sid})
    evs.append({"ev": "ClusterCount", "scn": sid, "n": pk["clusterCount"]})
    for c in pk["clusters"]:
        evs.append({"ev": "Cluster", "scn": sid, "id": c["id"], "compressed": c["comp"] != 0, "blobs": c["blobs"],
                    "dataSize": c["dataSize"], "rawSize": c["rawSize"], "width": c["offWidth"]})
        if c["comp"] not in (0, algo):
            problems.append(("cluster algorithm %d in a %s pack ops=%s" % (c["comp"], s["comp"], opsig(s)), desc))
    if want_verbatim:
        # C16: raw clusters hold the verbatim concatenation of their contents, compressed ones
        # decode (third-party codec) to it; blob sizes are the inserted sizes
        by_cluster = {}
        stored_ops = {}
        for a in adds:
            stored_ops.setdefault(a["idx"], a)
        for idx, a in sorted(stored_ops.items()):
            if idx < len(pk["infos"]):
                cl, bl = pk["infos"][idx]
                by_cluster.setdefault(cl, {})[bl] = a
        cache = {}
        for c in pk["clusters"]:
            blobs = by_cluster.get(c["id"], {})
            ok = sorted(blobs) == list(range(c["blobs"]))
            if ok:
                exp = b"".join(jbkgen.content(blobs[b]["cid"], blobs[b]["size"], blobs[b]["cls"]) for b in range(c["blobs"]))
                try:
                    plain = jbkdec.cluster_plain(pk, c["id"], cache)
                    ok = (plain == exp) and c["blobSizes"] == [blobs[b]["size"] for b in range(c["blobs"])]
                except jbkdec.LayoutViolation as e:
                    ok = False
            evs.append({"ev": "Verbatim", "scn": sid, "cluster": c["id"], "ok": ok,
                        "algoOk": c["comp"] in (0, algo)})
    for e in hv:
        if e["ev"] == "Count":
            evs.append({"ev": "Count", "scn": sid, "n": e["n"]})
        elif e["ev"] == "Get":
            k = -1
            if e.get("cid") is not None:
                a = next((a for a in adds if a["idx"] == e["idx"] and a["cid"] == e["cid"]), None)
                k = ckey(a["cid"], a["size"], a["cls"]) if a else -2
            evs.append({"ev": "Get", "scn": sid, "idx": min(e["idx"], 2 ** 31 - 1), "res": e["res"], "cid": k})
        elif e["ev"] == "Check" and e["res"] is not True:
            problems.append(("check of a fresh pack is %s %s ops=%s" % (e["res"], inputcls, opsig(s)), dict(desc, check=e)))
    return evs, problems, pk


def ckey(cid, size, cls):
    """identity of a content's bytes as an integer: contents shorter than their 10-byte header
    (and all-zero contents) can coincide across ids"""
    if size >= 10 and cls != "zero":
        return cid
    return (1 << 30) + (zlib.crc32(jbkgen.content(cid, size, cls) + bytes([size & 0xFF])) & ((1 << 30) - 1))


def opsig(s):
    """compact, stable description of the input class (for signatures)"""
    ops = s["ops"]
    if len(ops) > 6:
        return "%dx[%s..]" % (len(ops), ",".join("%s:%s:%d" % (o.get("hint", "detect")[0], o.get("cls", "low")[0], o["size"]) for o in ops[:3]))
    return "[%s]" % ",".join("%s:%s:%d" % (o.get("hint", "detect")[0], o.get("cls", "low")[0], o["size"]) for o in ops)


def run(prop, tier):
    rep = C.Report(prop, tier)
    rng = random.Random(C.SEED * 7919 + (1 if prop == "C01" else 16))
    binary = C.build("debug")
    # 1. design level: exhaustive exploration of the insertion policy
    replays = {}
    max_adds = 4 if tier == "quick" else 5
    for cached in (False, True):
        name = "MC_ContentPack_%s_%s" % (prop, "cached" if cached else "plain")
        if cached:
            cfg = mc_cfg(max_adds, True, sizes="{0, 3, 9}", cids="{1, 2}", replay_max=max_adds - 1)
        else:
            cfg = mc_cfg(max_adds, False, replay_max=max_adds - 1)
        r = C.tlc("MC_ContentPack", cfg, name)
        rep.add_tlc(r, name)
        if not r["ok"]:
            rep.violation("design: MC_ContentPack violates %s" % r["violated"], {"tlc": r.get("out", "")[-3000:]})
        if r["uncovered"]:
            raise C.ToolError("MC_ContentPack: actions never taken: %s" % r["uncovered"])
        behs = []
        for line in r["replay"]:
            b = C.unjson(line)
            behs.append(b)
        replays[cached] = behs
    C.log("[%s] design level done %.0fs" % (prop, time.time() - rep.t0))
    # 2. scenarios
    scns = make_scenarios(tier, replays, rng)
    base = os.path.join(C.WORK, "run_%s" % prop)
    shutil.rmtree(base, ignore_errors=True)
    os.makedirs(base)
    for s in scns:
        s["dir"] = os.path.join(base, s["id"])
    # 3. run in batches (bounded disk use), annotate, collect events
    all_events = []
    nscn = 0
    nontrivial = set()
    batch = 150
    for i in range(0, len(scns), batch):
        chunk = scns[i:i + batch]
        slim = [{k: v for k, v in s.items() if k != "behaviour"} for s in chunk]
        t1 = time.time()
        runs = C.run_scenarios(binary, slim, "%s_b%d" % (prop, i), timeout=600 if tier == "quick" else 1800)
        t2 = time.time()
        for s in chunk:
            run_ = runs.get(s["id"], {"events": [], "status": "crash:notrun"})
            evs, problems, pk = annotate(s, run_, want_verbatim=(prop == "C16"))
            for sig, detail in problems:
                rep.violation("%s %s" % (prop, sig), detail)
            if evs:
                all_events += evs
                nscn += 1
                if len(s["ops"]) >= 2:
                    nontrivial.add((s["comp"], s.get("cached", False), opsig(s)))
                if len(rep.cov["samples"]) < 3 and len(s["ops"]) in (2, 3, 4):
                    rep.cov["samples"].append({"scenario": {k: v for k, v in s.items() if k not in ("behaviour", "dir")},
                                               "trace": evs[:12]})
            shutil.rmtree(s["dir"], ignore_errors=True)
        C.log("  batch %d: harness %.1fs annotate %.1fs" % (i, t2 - t1, time.time() - t2))
    C.log("[%s] %d scenarios run %.0fs" % (prop, len(scns), time.time() - rep.t0))
    # 4. code -> spec
    tv = C.validate_trace("ContentPackTrace", trace_cfg(prop == "C16"), "ContentPackTrace_%s" % prop, all_events,
                          timeout=1800)
    rep.add_tlc(tv, "ContentPackTrace")
    rep.cov["traces_validated_against_impl"] = nscn
    rep.cov["trace_events"] = len(all_events)
    if not tv["accepted"]:
        ev = tv.get("rejected_event") or {}
        sid = ev.get("scn")
        s = next((x for x in scns if x["id"] == sid), None)
        scn_events = [e for e in all_events if e.get("scn") == sid]
        rep.violation("%s trace rejected at %s (%s) comp=%s ops=%s" % (
            prop, ev.get("ev"), json.dumps({k: v for k, v in ev.items() if k not in ("scn",)}, sort_keys=True),
            s["comp"] if s else "?", opsig(s) if s else "?"),
            {"scenario": {k: v for k, v in (s or {}).items() if k != "behaviour"}, "rejected": ev,
             "matched": tv["matched"], "events": scn_events[:200]})
        # everything after the rejected scenario is still worth checking: validate the rest
        rest = []
        skip = True
        for e in all_events:
            if skip:
                if e.get("scn") == sid:
                    skip = "in"
                    continue
                if skip == "in" and e.get("scn") != sid:
                    skip = False
                else:
                    continue
            rest.append(e)
        if rest:
            tv2 = C.validate_trace("ContentPackTrace", trace_cfg(prop == "C16"), "ContentPackTrace_%s_rest" % prop, rest, timeout=1800)
            rep.add_tlc(tv2, "ContentPackTrace(rest)")
            if not tv2["accepted"]:
                ev2 = tv2.get("rejected_event") or {}
                s2 = next((x for x in scns if x["id"] == ev2.get("scn")), None)
                rep.violation("%s trace rejected at %s (%s) comp=%s ops=%s" % (
                    prop, ev2.get("ev"), json.dumps({k: v for k, v in ev2.items() if k != "scn"}, sort_keys=True),
                    s2["comp"] if s2 else "?", opsig(s2) if s2 else "?"), {"rejected": ev2})
    if tv.get("drift"):
        rep.drift("%d insertion(s) placed differently from ContentPack!PolicyPlace (4095 blobs / 4 MiB rule)" % tv["drift"])
    rep.cov["evaluations"] = len(scns)
    rep.cov["distinct_nontrivial"] = len(nontrivial)
    rep.cov["rule"] = ("scenarios = every complete behaviour of MC_ContentPack (<=%d insertions over size classes x hints x "
                       "decisions, plain and deduplicating adder; capped sample) + seeded random + long scenarios; "
                       "distinct = different (compression, adder, hint/class/size sequence); non-trivial = at least 2 insertions" % max_adds)
    rep.assumptions += ["the independent decoder tools/jbkdec.py reports the placement (cluster, blob) truthfully",
                        "content identity is (cid,size,class): contents of different ids differ in their first 10 bytes"]
    shutil.rmtree(base, ignore_errors=True)
    return rep.finish()
