"""C04 / C05 / C06: checks, silent corruption, crashes on damaged files.  Integrity.tla exhaustively
(every single and double damage of a representative container, every truncation point); real
containers damaged at every byte position (x masks), truncated at every length, extended,
replaced; each damaged copy fully dumped by a case server; IntegrityTrace.tla gives the
verdict per property."""
import json
import os
import random
import shutil
import time

import common as C
import b3
import jbkdec
import logical as L

MODEL_ID = {
    ("C", "PackHeader"): "C.header", ("C", "ContainerPackHeader"): "C.cheader", ("C", "PackLocator"): "C.locators",
    ("C", "Check"): "C.check", ("C", "PackTail"): "C.tail",
    ("c", "PackHeader"): "c.header", ("c", "ContentPackHeader"): "c.cheader", ("c", "ClusterData"): "c.data",
    ("c", "ClusterTail"): "c.ctail", ("c", "ClusterPtrArray"): "c.cptrs", ("c", "ContentInfoArray"): "c.infos",
    ("c", "Check"): "c.check", ("c", "PackTail"): "c.tail",
    ("d", "PackHeader"): "d.header", ("d", "DirectoryPackHeader"): "d.dheader", ("d", "Index"): "d.index",
    ("d", "EntryStoreData"): "d.edata", ("d", "EntryStoreTail"): "d.etail", ("d", "ValueStoreData"): "d.vdata",
    ("d", "ValueStoreTail"): "d.vtail", ("d", "IndexPtrArray"): "d.ptrs", ("d", "ValueStorePtrArray"): "d.ptrs",
    ("d", "EntryStorePtrArray"): "d.ptrs", ("d", "Check"): "d.check", ("d", "PackTail"): "d.tail",
    ("m", "PackHeader"): "m.header", ("m", "ManifestPackHeader"): "m.mheader", ("m", "PackCheckCopy"): "m.copies",
    ("m", "ValueStoreData"): "m.vstore", ("m", "ValueStoreTail"): "m.vstore", ("m", "PackInfo"): "m.infos",
    ("m", "Check"): "m.check", ("m", "PackTail"): "m.tail",
}
ORDER = {"C.header": 1, "C.cheader": 2, "c.header": 3, "c.cheader": 4, "c.data": 5, "c.ctail": 6, "c.cptrs": 7, "c.infos": 8,
         "c.check": 9, "c.tail": 10, "d.header": 11, "d.dheader": 12, "d.index": 13, "d.edata": 14, "d.etail": 15, "d.vdata": 16,
         "d.vtail": 17, "d.ptrs": 18, "d.check": 19, "d.tail": 20, "m.header": 21, "m.mheader": 22, "m.copies": 23, "m.vstore": 24,
         "m.infos": 25, "m.check": 26, "m.tail": 27, "C.locators": 28, "C.check": 29, "C.tail": 30}


def trace_cfg(prop):
    return """CONSTANTS
  MaxDamage = 2
  Prop = "%s"
SPECIFICATION TraceSpec
INVARIANT Done
POSTCONDITION TraceAccepted
CHECK_DEADLOCK FALSE
""" % prop


class FileMap:
    """position -> (pack key, pack kind, block kind, part, covered, model id) for one file"""

    def __init__(self, path, pack_keys):
        self.path = path
        with open(path, "rb") as f:
            self.data = f.read()
        self.dec = jbkdec.decode_file(path, data=self.data, check_hash=False)
        self.size = len(self.data)
        self.owner = [None] * self.size
        packs = jbkdec.all_packs(self.dec)
        # outer packs first, nested packs override
        for pk in packs:
            key = pack_keys.get(pk["uuid"], pk["kind"])
            base, cip = pk["offset"], pk["checkInfoPos"]
            hashed_pack = pk.get("checkKind") == "blake3"
            for b in pk["blocks"]:
                if b["kind"] == "NestedPack":
                    continue
                end_payload = b["begin"] + b["size"]
                for pos in range(b["begin"], min(b["end"], self.size)):
                    part = "payload" if pos < end_payload else "crc"
                    covered = hashed_pack and (pos - base) < cip
                    if b["kind"] == "PackInfo":
                        if pos - b["begin"] >= 38:
                            covered = False
                            part = "exempt" if pos < end_payload else "crc"
                    if b["kind"] == "Check" and hashed_pack:
                        covered = True
                    self.owner[pos] = (key, pk["kind"], b["kind"], part, covered, MODEL_ID.get((pk["kind"], b["kind"])))
        self.modelable = all(o is not None for o in self.owner) and sum(1 for p in packs if p["kind"] == "c") == 1

    def classify(self, positions):
        parts, covered, cpacks = [], False, []
        for p in positions:
            o = self.owner[p] if p < self.size else None
            if o is None:
                continue
            if o[5]:
                prt = [o[5], o[3]]
                if prt not in parts:
                    parts.append(prt)
            if o[4]:
                covered = True
                if o[0] not in cpacks:
                    cpacks.append(o[0])
        return parts, covered, cpacks

    def trunc_order(self, n):
        """order of the first model block not fully present in a file cut to n bytes"""
        best = 0
        for pk in jbkdec.all_packs(self.dec):
            for b in pk["blocks"]:
                mid = MODEL_ID.get((pk["kind"], b["kind"]))
                if mid and b["end"] > n:
                    o = ORDER[mid]
                    best = o if best == 0 else min(best, o)
        return best


def tri(x):
    if x is True:
        return "true"
    if x is False:
        return "false"
    if isinstance(x, dict) and "panic" in x:
        return "panic"
    if x == "absent":
        return "absent"
    return "err"


def outcome_event(case, run, pristine_flat, fm, world_keys):
    """one Case event from a dump run"""
    sid = case["id"]
    d = next((e for e in run["events"] if e["ev"] == "Dump"), None)
    changed = next((e["changed"] for e in run["events"] if e["ev"] == "Damaged"), True)
    ev = {"ev": "Case", "scn": sid, "parts": case["parts"], "trunc": case.get("trunc", 0), "covered": case["covered"] and changed,
          "coveredChecks": [], "model": bool(case.get("model")) and changed, "kind": case["damage"]["kind"],
          "open": "ok", "nSame": 0, "nErr": 0, "nDiffStruct": 0, "nDiffContent": 0, "nCrash": 0, "check": "err",
          "entriesSame": False, "contentSame": False, "changed": changed, "site": "", "profile": case.get("profile", "debug")}
    st = run["status"]
    if st != "ok" or d is None:
        ev["open"] = "timeout" if st == "timeout" else ("abort" if st in ("crash:-6", "crash:134") else "signal")
        ev["site"] = next((e.get("site", "") for e in reversed(run["events"]) if e["ev"] == "PanicSite"), "") or st
        ev["coveredChecks"] = ["err"] * len(case["cpacks"])
        return ev, None
    direct = [r_ for e in run["events"] if e["ev"] == "Direct" for r_ in e["readers"] if r_["res"] == "panic"]
    if d["open"] != "ok":
        ev["open"] = "panic" if (d["open"] == "panic" or direct) else "err"
        ev["site"] = d.get("site", "") if d["open"] == "panic" or not direct else "%s (opened directly by %s)" % (direct[0].get("site", ""), direct[0]["reader"])
        ev["coveredChecks"] = ["err"] * len(case["cpacks"])
        return ev, None
    dump = d["dump"]
    fg = L.flatten(dump)
    diffs = []
    for k, a in pristine_flat.items():
        if k == "check":
            continue
        g = fg.get(k, "<absent>")
        if g == a:
            ev["nSame"] += 1
        elif g in ("<absent>", "ERR") or (k.endswith("/res") and g in ("err", "panic")) or (k.endswith("/res") and g == "missing"):
            ev["nErr"] += 1
        elif k.endswith("/bytes"):
            ev["nDiffContent"] += 1
            diffs.append((k, a, g))
        else:
            # (an index or a content answered 'none' although it was written is a different answer, not an error)
            ev["nDiffStruct"] += 1
            diffs.append((k, a, g))
    for k in fg:
        if k not in pristine_flat and k != "check":
            ev["nDiffStruct"] += 1
            diffs.append((k, "<absent>", fg[k]))
    txt = json.dumps(dump)
    ev["nCrash"] = txt.count('"panic"') + sum(e.get("panic", 0) for e in run["events"] if e["ev"] == "Concurrent") + len(direct)
    if ev["nCrash"]:
        i = txt.find('"site": "')
        ev["site"] = txt[i + 9:i + 80].split('"')[0] if i >= 0 else ""
        if direct:
            ev["site"] = "%s (opened directly by %s)" % (direct[0].get("site", ""), direct[0]["reader"])
    ev["check"] = tri(dump.get("check"))
    pc = dump.get("packChecks", {})
    ev["coveredChecks"] = [tri(pc.get(world_keys.get(k, k), "err")) for k in case["cpacks"]]
    ev["entriesSame"] = all(fg.get(k) == a for k, a in pristine_flat.items() if k.startswith("index/") and ("/typed" not in k or k in fg))
    ev["contentSame"] = all(fg.get(k) == a for k, a in pristine_flat.items() if k.startswith("pack/"))
    return ev, diffs


def big_block_positions(fm, per_block=150):
    """positions inside the blocks of >= 4 KiB (the reader maps those instead of copying them)"""
    pos = []
    for pk in jbkdec.all_packs(fm.dec):
        for b in pk["blocks"]:
            if b["kind"] != "NestedPack" and b["size"] >= 4000:
                step = max(1, (b["end"] - b["begin"]) // per_block)
                pos += list(range(b["begin"], b["end"], step)) + [b["end"] - 1, b["end"] - 5]
    return sorted(set(p for p in pos if 0 <= p < fm.size))


def gen_cases(fm, rng, tier, prop, stride=1):
    """damage cases for one file"""
    cases = []
    n = fm.size
    masks = [0x01, 0x80, 0xFF]
    if stride == "huge":
        # an entry store of more than 1 MiB: positions inside its data and its CRC; only the entries around the altered one are read
        for pk in jbkdec.all_packs(fm.dec):
            esz = {}
            for es_ in pk.get("entryStores", []) or []:
                esz = es_
            for b in pk["blocks"]:
                if b["kind"] != "EntryStoreData" or b["size"] < (1 << 20) or not esz:
                    continue
                npos = 40 if tier == "quick" else 600
                step = max(1, b["size"] // npos)
                for pos in list(range(b["begin"] + 3, b["begin"] + b["size"], step)) + [b["begin"], b["begin"] + b["size"] - 1, b["end"] - 1, b["end"] - 4]:
                    parts, covered, cpacks = fm.classify([pos])
                    i = min((pos - b["begin"]) // esz["entrySize"], esz["count"] - 1)
                    cases.append({"damage": {"kind": "xor", "pos": pos, "mask": masks[pos % 3]}, "parts": parts, "covered": covered, "cpacks": cpacks,
                                  "model": False, "trunc": 0, "entry_window": [max(0, i - 2), min(esz["count"], i + 3)]})
        return cases
    if stride == "bigc":
        # compressed clusters of many decoding chunks: damage in the middle of the stream leaves a decoder that has
        # published a part of the cluster and then fails (contents before the failure, across it and beyond it are read)
        def addc(dmg, positions):
            parts, covered, cpacks = fm.classify(positions)
            cases.append({"damage": dmg, "parts": parts, "covered": covered, "cpacks": cpacks, "model": False, "trunc": 0})
        step = max(1, n // (120 if tier == "quick" else 2000))
        for pos in range(0, n, step):
            addc({"kind": "xor", "pos": pos, "mask": masks[pos % 3]}, [pos])
            if (pos // step) % 4 == 0:
                addc({"kind": "zero", "pos": pos, "len": 32}, range(pos, min(pos + 32, n)))
        if prop == "C06":
            for t_ in range(0, n, max(1, n // (60 if tier == "quick" else 1000))):
                addc({"kind": "trunc", "len": t_}, [])
        return cases
    if stride == "big":
        def addb(dmg, positions):
            parts, covered, cpacks = fm.classify(positions)
            cases.append({"damage": dmg, "parts": parts, "covered": covered, "cpacks": cpacks, "model": False, "trunc": 0})
        for pos in big_block_positions(fm, 30 if tier == "quick" else 600):
            addb({"kind": "xor", "pos": pos, "mask": masks[pos % 3]}, [pos])
        for pos in range(0, n, max(1, n // (40 if tier == "quick" else 1500))):
            addb({"kind": "xor", "pos": pos, "mask": masks[pos % 3]}, [pos])
        if prop == "C06":
            for t_ in range(0, n, max(1, n // (40 if tier == "quick" else 400))):
                addb({"kind": "trunc", "len": t_}, [])
        return cases

    def add(dmg, positions, model=True, trunc=0):
        parts, covered, cpacks = fm.classify(positions)
        cases.append({"damage": dmg, "parts": parts, "covered": covered, "cpacks": cpacks, "model": model and fm.modelable, "trunc": trunc})
    for pos in range(0, n, stride):
        ms = masks if tier == "thorough" else [masks[pos % 3]]
        for m in ms:
            add({"kind": "xor", "pos": pos, "mask": m}, [pos])
    # multi-byte alterations
    for _ in range(60 if tier == "quick" else 3000):
        k = rng.randrange(2, 9)
        a = rng.randrange(0, n)
        ln = rng.randrange(1, 64)
        if rng.random() < 0.5:
            add({"kind": "zero", "pos": a, "len": ln}, range(a, min(a + ln, n)), model=False)
        else:
            add({"kind": "fill", "pos": a, "len": ln, "mask": rng.randrange(1, 256)}, range(a, min(a + ln, n)), model=False)
    if prop == "C04":
        # an alteration that keeps the block's own CRC right (the CRC-32C of the altered block is recomputed, as a tool
        # rewriting a block would do): the block check passes, only the pack's hash can tell - every byte of the
        # pack-info blocks (all of the hashed part, a sample of the exempt location), a sample of every other block
        for pk in jbkdec.all_packs(fm.dec):
            for b in pk["blocks"]:
                if b["kind"] == "NestedPack" or b["end"] - (b["begin"] + b["size"]) != 4 or b["size"] > 6000 or b["end"] > n:
                    continue
                if b["kind"] == "Check":
                    # the check info *is* the checksum, it is not covered by it: with its own CRC repaired, a changed kind
                    # byte (blake3 -> none) turns the check off, which the property does not exclude (DESIGN 11.8)
                    continue
                if b["kind"] == "PackInfo":
                    offs = list(range(0, 40)) + [60, 252 - 1]
                elif b["size"] == 60:       # a pack header or its copy at the tail
                    offs = list(range(0, 60, 1 if tier != "quick" else 2)) + [10, 11]
                else:
                    per = 12 if tier == "quick" else 200
                    offs = sorted(set(list(range(0, b["size"], max(1, b["size"] // per))) + [b["size"] - 1]))
                for off in offs:
                    if off < 0 or off >= b["size"]:
                        continue
                    pos = b["begin"] + off
                    m = masks[pos % 3]
                    blk = bytearray(fm.data[b["begin"]:b["begin"] + b["size"]])
                    blk[off] ^= m
                    crc = b3.crc32c_jbk(bytes(blk))
                    crc = crc if isinstance(crc, (bytes, bytearray)) else int(crc).to_bytes(4, "big")
                    extra = [[b["begin"] + b["size"] + i, crc[i]] for i in range(4)]
                    add({"kind": "xor", "pos": pos, "mask": m, "extra": extra, "crc_repaired": True, "block_off": off}, [pos] + [e[0] for e in extra], model=False)
    if prop == "C06":
        for t in range(0, n, 1 if tier == "thorough" or n < 2500 else 2):
            add({"kind": "trunc", "len": t}, [], model=True, trunc=fm.trunc_order(t))
            cases[-1]["parts"] = []
        for ln in (1, 63, 64, 65, 4096):
            add({"kind": "append", "len": ln, "mask": rng.randrange(256)}, [], model=False)
        for ln in list(range(0, 70)) + [127, 128, 129, 1000, 4096, 70000]:
            add({"kind": "replace", "len": ln, "mask": rng.randrange(256)}, [], model=False)
    return cases


def make_world(binary, base, rng, idx, comp, concat, n_extras, tier, big=False, same_ids=False):
    if big == "huge":
        # an entry store of more than 1 MiB (90 000 entries of 13 bytes and more)
        scn = L.make_container(rng, 500 + idx, n_entries=90000, n_extras=n_extras, comp=comp, concat=concat, sizes=[0, 1, 2])
        for j, e in enumerate(scn["dirpack"]["entries"]):
            if "extra" in e["values"]:
                e["values"]["extra"] = {"a": list(b"-> entry-%04d" % (j % 1000))}     # (an indexed store holds about 21 800 values at most)
    elif big == "bigc":
        scn = L.make_container(rng, 500 + idx, n_entries=7, n_extras=n_extras, comp=comp, concat=concat, sizes=[5000, 70000, 150000, 300000])
        for o in scn["ops"]:
            if o["cls"] == "rand":
                o["cls"] = "low"        # everything compressible: one or two compressed clusters of hundreds of KiB
            o["hint"] = "yes"
    elif big:
        # blocks of >= 4 KiB (content infos of 2500 contents, cluster tails of thousands of blobs, entry store data)
        scn = L.make_container(rng, 500 + idx, n_entries=2500, n_extras=n_extras, comp=comp, concat=concat, sizes=[0, 1, 3, 7, 20])
    else:
        scn = L.make_container(rng, 500 + idx, n_entries=4, n_extras=n_extras, comp=comp, concat=concat, extra_ids=[2] * n_extras if same_ids else None)
    d = os.path.join(base, "w%d" % idx)
    shutil.rmtree(d, ignore_errors=True)
    os.makedirs(d)
    s = dict(scn, dir=d)
    r = C.run_scenarios(binary, [s], "I_create", timeout=300)[s["id"]]
    fin = next((e for e in r["events"] if e["ev"] == "Finalize"), None)
    if r["status"] != "ok" or not fin or not fin.get("ok"):
        raise C.ToolError("cannot create the container for the integrity checks: %s" % fin)
    return scn, d


def run(prop, tier):
    rep = C.Report(prop, tier)
    rng = random.Random(C.SEED * 1299709 + int(prop[1:]))
    profiles = ["debug", "release"] if prop == "C06" else ["debug"]
    binaries = {p: C.build(p) for p in profiles}
    r = C.tlc("Integrity", "CONSTANTS\n  MaxDamage = 2\nSPECIFICATION Spec\nINVARIANTS PristineVerifies CoveredDamageDetected StructureNeverSilentlyWrong "
              "ExemptIsExempt OutcomeIsValueOrError TruncationIsError\nCHECK_DEADLOCK FALSE\n", "MC_Integrity_%s" % prop)
    rep.add_tlc(r, "MC_Integrity")
    if not r["ok"]:
        rep.violation("design: Integrity violates %s" % r["violated"], {"tlc": r.get("out", "")[-3000:]})
    base = os.path.join(C.WORK, "run_%s" % prop)
    shutil.rmtree(base, ignore_errors=True)
    os.makedirs(base)
    if tier == "quick":
        worlds = [("zstd", "one", 0, 1), ("none", "two", 1, 5)] if prop != "C06" else [("zstd", "one", 0, 1), ("lz4", "one", 0, 5), ("lzma", "two", 1, 5), ("none", "none", 1, 5), ("lzma", "one", 0, "bigc")]
        worlds.append(("none", "one", 0, "big"))
        if prop in ("C04", "C05"):
            worlds.append(("none", "two", 2, 1, "extra0.jbkc"))     # a pack is unavailable; the packs listed after it are still checked
        if prop == "C05":
            worlds.append(("none", "one", 0, "huge"))
        if prop == "C04":
            worlds.append(("none", "two", 2, 1, "alternatives"))
    else:
        worlds = [(c, m, x, 1) for c in ("none", "lz4", "lzma", "zstd") for m, x in (("one", 0), ("two", 1), ("none", 2))]
        worlds += [("none", "one", 0, "big"), ("zstd", "two", 1, "big")]
        if prop in ("C04", "C05"):
            worlds += [("none", "two", 2, 1, "extra0.jbkc"), ("zstd", "none", 2, 1, "extra0.jbkc")]
        if prop in ("C05", "C06"):
            worlds.append(("none", "one", 0, "huge"))
        if prop == "C06":
            worlds += [("lzma", "one", 0, "bigc"), ("zstd", "one", 0, "bigc"), ("lz4", "two", 1, "bigc")]
        if prop == "C04":
            worlds.append(("none", "two", 2, 1, "alternatives"))
    if os.environ.get("VERIF_WORLDS"):          # (debugging aid: the worlds of one run given by hand, as JSON)
        worlds = [tuple(w) for w in json.loads(os.environ["VERIF_WORLDS"])]
    events, nontrivial, total = [], set(), 0
    case_index = {}
    confirmed_bad = 0       # crashes / hangs confirmed alone: after a few of them the verdict is reached and the sweep stops
    for wi, wd in enumerate(worlds):
        comp, concat, nex, stride = wd[:4]
        removed = wd[4] if len(wd) > 4 else None
        alts = removed == "alternatives"      # two content packs declared with the same pack id (allowed by the format: alternatives)
        if alts:
            removed = None
        scn, d = make_world(binaries["debug"], base, rng, wi, comp, concat, nex, tier, big=(stride if stride in ("huge", "bigc") else stride == "big"), same_ids=alts)
        entry = os.path.join(d, scn["out"])
        removed_id = None
        if removed:
            os.unlink(os.path.join(d, removed))
            removed_id = next(ex["pack_id"] for ex in scn["extras"] if ex["file"] == removed)
        req = L.dump_request(scn, entry)
        pr = C.run_scenarios(binaries["debug"], [dict(req, id="pristine")], "I_pristine", timeout=120)["pristine"]
        pd = next((e for e in pr["events"] if e["ev"] == "Dump"), None)
        if pr["status"] != "ok" or not pd or pd["open"] != "ok":
            rep.violation("%s pristine container does not open comp=%s mode=%s" % (prop, comp, concat), {"dump": pd})
            continue
        pristine = pd["dump"]
        exp_diff = L.diff(L.expected_dump(scn), pristine)
        if removed_id is not None:
            exp_diff = [x for x in exp_diff if not x[0].startswith("pack/%d/" % removed_id)]
            if L.flatten(pristine).get("pack/%d/res" % removed_id) != "missing":
                rep.violation("%s removed pack %d is not reported missing" % (prop, removed_id), {"dump": pristine.get("contents")})
        if alts:
            exp_diff = []          # (which alternative answers for the shared id is the reader's choice: only the checks are judged in this world)
        if exp_diff:
            rep.violation("%s pristine dump differs from the logical container comp=%s mode=%s" % (prop, comp, concat), {"diff": exp_diff[:5]})
            continue
        if pristine.get("check") is not True or any(v is not True for k_, v in pristine.get("packChecks", {}).items() if k_ != str(removed_id)):
            rep.violation("%s pristine container does not verify comp=%s mode=%s checks=%s" % (prop, comp, concat, json.dumps(pristine.get("packChecks"))),
                          {"check": pristine.get("check")})
        pflat = L.flatten(pristine)
        # pack keys: uuid -> key used in packChecks ("m","d","1","2",...)
        decm = jbkdec.decode_file(entry, check_hash=False)
        man = next(p for p in jbkdec.all_packs(decm) if p["kind"] == "m")
        keys = {man["uuid"]: "m"}
        for pi in man["packInfos"]:
            kk = "d" if pi["kind"] == "d" else str(pi["packId"])
            if kk in keys.values():
                kk += "#alt"         # a further pack with the same id: its own check is not reported separately, the container's is
            keys[pi["uuid"]] = kk
        files = [fn for fn in sorted(os.listdir(d)) if os.path.isfile(os.path.join(d, fn)) and not fn.startswith("in_")]
        if removed:
            files = [fn for fn in files if fn.startswith("extra")]       # the packs listed after the unavailable one
        if alts:
            files = [fn for fn in files if fn.startswith("extra1")]      # the alternative that is not the first one declared
        for fn in files:
            fm = FileMap(os.path.join(d, fn), keys)
            cases = gen_cases(fm, rng, tier, prop, stride=stride)
            if fn != scn["out"]:
                for c_ in cases:
                    c_["model"] = False
                    c_["damage"]["target"] = os.path.join(d, fn)
            pristine_bytes = {os.path.join(d, f2): open(os.path.join(d, f2), "rb").read() for f2 in files}

            def restore():
                for p, b in pristine_bytes.items():
                    if not os.path.exists(p) or os.path.getsize(p) != len(b) or open(p, "rb").read() != b:
                        if os.path.isdir(p):
                            shutil.rmtree(p)
                        with open(p, "wb") as f:
                            f.write(b)
            for profile in profiles:
                if confirmed_bad >= 6:
                    C.log("[%s] %d crashes / hangs confirmed: skipping the rest of the sweep" % (prop, confirmed_bad))
                    break
                if profile == "release" and tier == "quick":
                    sub = [c_ for i, c_ in enumerate(cases) if i % 3 == 0]
                else:
                    sub = cases
                scns = []
                for i, c_ in enumerate(sub):
                    total += 1
                    sid = "%s%d_%s_%d" % (profile[0], wi, fn.replace(".", "_"), i)
                    cc = dict(c_, id=sid, profile=profile, world=(comp, concat, fn))
                    case_index[sid] = cc
                    sc = dict(req, id=sid, damage=c_["damage"])
                    # the typed property builders are read as well, except where that only costs time: C04 judges checks only,
                    # and in the worlds of thousands of entries one case in four is enough
                    if prop == "C04" or (stride in ("big", "bigc") and i % 4):
                        sc["no_typed"] = True
                    if c_.get("entry_window"):
                        sc["entry_window"] = c_["entry_window"]
                        sc["max_content"] = 20
                    if c_["damage"].get("crc_repaired"):
                        # only the checks are asked for: metadata that is wrong and carries a right CRC makes the reader
                        # itself panic in several places (DESIGN 11.8); C04 judges the checks
                        sc["indexes"], sc["packs"] = [], []
                    if prop == "C06" and comp != "none" and any(p[0] == "c.data" for p in c_["parts"]):
                        sc["threads"] = 6       # several readers waiting on the same failing decoder
                    if prop == "C06":
                        sc["direct"] = True     # the damaged file also opened directly by every pack reader
                    scns.append(sc)
                t1 = time.time()
                all_scns = scns
                # a dump of a container of thousands of entries is hundreds of KiB of JSON: such worlds are processed a hundred cases at a time
                chunk = 100 if stride in ("big", "huge", "bigc") else 3000
                for ci in range(0, len(all_scns), chunk):
                    if confirmed_bad >= 6:
                        break
                    scns = all_scns[ci:ci + chunk]
                    # (after a dozen crashes / hangs in one batch the verdict is reached: the rest of the batch is skipped)
                    runs = C.run_scenarios(binaries[profile], scns, "I_%s" % prop, timeout=120 + len(scns) // 20, before_round=restore,
                                           max_failures=12 if prop == "C06" else None, env_extra={"VERIF_SCN_TIMEOUT": "20"})
                    restore()
                    scns = [s for s in scns if runs.get(s["id"], {}).get("status") != "skipped"]
                    # crashes and timeouts are re-run alone in a fresh process before they are attributed
                    again = [s for s in scns if runs.get(s["id"], {"status": "crash:notrun"})["status"] != "ok"]
                    for s in again[:12]:
                        if confirmed_bad >= 6:
                            runs[s["id"]] = {"events": [], "status": "skipped"}
                            continue
                        r1 = C.run_scenarios(binaries[profile], [s], "I_alone", timeout=60, before_round=restore, env_extra={"VERIF_SCN_TIMEOUT": "40"})
                        restore()
                        runs[s["id"]] = r1.get(s["id"], {"events": [], "status": "crash:notrun"})
                        # (a crash on metadata that is wrong under a right CRC is not what C04 judges and does not end the sweep)
                        confirmed_bad += runs[s["id"]]["status"] != "ok" and not case_index[s["id"]]["damage"].get("crc_repaired")
                    scns = [s for s in scns if runs.get(s["id"], {}).get("status") != "skipped"]
                    for s in scns:
                        cc = case_index[s["id"]]
                        ev, diffs = outcome_event(cc, runs.get(s["id"], {"events": [], "status": "crash:notrun"}), pflat, fm, {})
                        cc["diffs"] = (diffs or [])[:4]
                        events.append(ev)
                        if ev["changed"]:
                            nontrivial.add((comp, concat, fn, json.dumps(cc["damage"], sort_keys=True)))
                        if len(rep.cov["samples"]) < 3 and ev["changed"] and ev["parts"]:
                            rep.cov["samples"].append({"file": fn, "comp": comp, "mode": concat, "damage": cc["damage"], "case": ev})
                C.log("[%s] %s/%s %s %s: %d cases %.0fs" % (prop, comp, concat, fn, profile, len(all_scns), time.time() - t1))
    # validation: one event per case
    import p_entries as E

    def sig(s):
        cc = case_index[s["id"]]
        ev = next(e for e in events if e["scn"] == s["id"])
        dm = cc["damage"]
        where = "+".join("%s.%s" % tuple(p) for p in cc["parts"][:2]) or dm["kind"]
        if prop == "C06":
            return "%s %s site=%s kind=%s at=%s profile=%s" % (ev["open"] if ev["open"] != "ok" else "item", "crash", ev["site"], dm["kind"], where, cc["profile"])
        return "kind=%s at=%s comp=%s mode=%s file=%s open=%s check=%s diffs=%s" % (dm["kind"] + ("+crc off=%d" % dm.get("block_off", -1) if dm.get("crc_repaired") else ""), where, cc["world"][0], cc["world"][1], cc["world"][2],
                                                                                     ev["open"], ev["check"], json.dumps(cc.get("diffs"))[:200])
    validate_cases(rep, prop, events, case_index, sig)
    rep.cov["traces_validated_against_impl"] = len(events)
    rep.cov["trace_events"] = len(events)
    rep.cov["evaluations"] = total
    rep.cov["distinct_nontrivial"] = len(nontrivial)
    rep.cov["exhaustive"] = (tier == "thorough")
    rep.cov["rule"] = ("cases = for every file of each created container (worlds %s): every byte position (stride per world) x masks {01,80,ff} (one mask per position in quick), "
                       "sampled zeroed / overwritten ranges%s; each damaged copy is opened and fully dumped; distinct = different (file, damage); non-trivial = the damage changed the file"
                       % (worlds, ", every truncation length, appended garbage, non-jubako files of 0..70+ bytes; debug and release builds" if prop == "C06" else ""))
    rep.assumptions += ["damage positions are classified with the independent decoder's block map of the pristine file",
                        "a crash or timeout is attributed to a case only after re-running it alone in a fresh process"]
    if prop == "C04":
        import p_lifecycle
        p_lifecycle.stage(rep, prop, tier, binaries["debug"])      # CheckIsSound, end to end
    shutil.rmtree(base, ignore_errors=True)
    return rep.finish()


def validate_cases(rep, prop, events, case_index, sig):
    """trace validation; rejected cases are reported (deduplicated by signature) and removed, until accepted"""
    evs = list(events)
    seen = {}
    # cases listed in known_findings.json are counted (KNOWN-FINDING line) and taken out before validation: they must not use
    # up the rounds in which other rejections are found
    if rep.known:
        import re as _re
        keep = []
        for e in evs:
            cc = case_index.get(e.get("scn")) or {}
            if cc.get("damage", {}).get("crc_repaired") and e.get("check") == "true":
                s_ = "%s %s" % (prop, sig({"id": e["scn"]}))
                if any(_re.search(k_["signature"], s_) for k_ in rep.known):
                    rep.violation(s_, {})
                    continue
            keep.append(e)
        evs = keep
    for rnd in range(400):
        tv = C.validate_trace("IntegrityTrace", trace_cfg(prop), "IntegrityTrace_%s_%d" % (prop, rnd % 3), evs, timeout=1800)
        if rnd == 0:
            rep.add_tlc(tv, "IntegrityTrace")
            if tv.get("drift"):
                rep.drift("%d case(s) where the outcome differs from the one Integrity.tla predicts from the blocks each operation verifies" % tv["drift"])
        if tv["accepted"]:
            break
        ev = tv.get("rejected_event") or {}
        sid = ev.get("scn")
        s = sig({"id": sid})
        key = s if prop != "C06" else s.split(" at=")[0]
        seen[key] = seen.get(key, 0) + 1
        if seen[key] == 1:
            rep.violation("%s %s" % (prop, s), {"case": case_index.get(sid), "event": ev})
        # drop this case and every later case with the same signature class (they would be rejected alike)
        if prop == "C06":
            drop = {e["scn"] for e in evs if e["scn"] == sid or (G06_bad(e) and sig({"id": e["scn"]}).split(" at=")[0] == key)}
        else:
            drop = {sid}
        evs = [e for e in evs if e["scn"] not in drop]
        if not evs:
            break
        if sum(seen.values()) >= 25:
            # the verdict is reached: the remaining cases are not examined one validation run at a time
            rep.violation("%s more than 25 cases rejected, %d cases left unexamined" % (prop, len(evs)), {"classes": seen})
            break
    else:
        rep.violation("%s more than 400 distinct rejected classes" % prop, {})
    rep.cov["rejected_classes"] = seen


def G06_bad(e):
    return e["open"] in ("panic", "abort", "signal", "timeout") or e["nCrash"] > 0 or e["check"] == "panic"
