------------------------ MODULE PipelineFaultsTrace ------------------------
(* Code -> spec for the failure path of the cluster pipeline (PipelineFaults.tla): the hooked build is
   run with a file-size limit that makes one write of the writer thread fail (EFBIG returned), on 1 to
   3 CPUs with delays in the workers' callbacks so that the main thread runs ahead of them.  The trace
   holds the hook events of PipelineHooksTrace plus

     Panic    {thread, site}   the process's panic hook: which thread left, where
     Outcome  {status}         how creation ended: "ok" | "fail" (an error or a panic reached the
                               caller) | "hang" (the per-scenario watchdog fired)

   and every event must be an enabled step of PipelineFaults with the code's policy:
     - after the writer has left nothing more is written (no PWrite / PAddr / PWriterExit);
     - a worker leaves by a panic only while the writer has not ended well, with its output ready (PDone seen) and
       WITHOUT a PDec: the counter keeps counting its cluster - the next PDispatch reports, under the
       counter's mutex, exactly counter + 1, which is how the trace sees that nothing was decremented;
     - a panic of a worker or of the main thread marks the writer as gone (that is what a failed send means; the
       writer itself leaves with a Panic event when it unwraps the error, silently when it returns it);
     - "ok" only from the state the fault-free machine ends in; "hang" only in the state Stuck of
       PipelineFaults (main waiting for room, counter at its bound, every worker dead): a hang anywhere
       else is not explained by the model.
   This stage belongs to no listed property; a rejection is reported as a departure of the code from the
   modelled fault path (OBSERVATION-DRIFT), never as a VIOLATION. *)
EXTENDS PipelineHooksTrace

VARIABLES wfail, dead, mainSt
ftvars == <<tvars, wfail, dead, mainSt>>
nv == <<wfail, dead, mainSt>>
ftvars_but_l == <<W, maxQ, seen, dispatched, fusion, inQueue, busy, rel, written, filePos, addrLen, closed, exited, writerDone, drift, wfail, dead, mainSt>>

FTraceInit == TraceInit /\ wfail = FALSE /\ dead = {} /\ mainSt = "run"
FTraceNew == TraceNew /\ wfail' = FALSE /\ dead' = {} /\ mainSt' = "run"

IsWorker(t) == t \notin {"main", "Cluster writer"}
TracePanicWriter ==
  /\ IsEvent("Panic") /\ Rec[l].thread = "Cluster writer"
  /\ (~wfail /\ ~writerDone) = TRUE
  /\ wfail' = TRUE /\ UNCHANGED <<dead, mainSt>>
  /\ UNCHANGED <<W, maxQ, seen, dispatched, fusion, inQueue, busy, rel, written, filePos, addrLen, closed, exited, writerDone, drift>>
TracePanicWorker ==
  /\ IsEvent("Panic") /\ IsWorker(Rec[l].thread)
  /\ LET t == Rec[l].thread IN
       /\ (~writerDone /\ t \notin dead /\ t \notin exited /\ BusyOf(t) # Unset /\ BusyOf(t) \in DOMAIN rel) = TRUE
       /\ dead' = dead \cup {t}
       /\ busy' = Put(busy, t, Unset)
  /\ wfail' = TRUE                 \* a failed send is how the others learn that the writer has left (it leaves without a
                                   \* Panic event when its write returns the error instead of unwrapping it: raw clusters)
  /\ UNCHANGED mainSt              \* inQueue unchanged: the code's policy (DecOnFail = FALSE)
  /\ UNCHANGED <<W, maxQ, seen, dispatched, fusion, inQueue, rel, written, filePos, addrLen, closed, exited, writerDone, drift>>
TracePanicMain ==
  /\ IsEvent("Panic") /\ Rec[l].thread = "main"
  /\ (~writerDone /\ mainSt = "run") = TRUE
  /\ mainSt' = "fail" /\ wfail' = TRUE /\ UNCHANGED dead
  /\ UNCHANGED <<W, maxQ, seen, dispatched, fusion, inQueue, busy, rel, written, filePos, addrLen, closed, exited, writerDone, drift>>
TraceOutcome ==
  /\ IsEvent("Outcome")
  /\ LET s == Rec[l].status IN
       (\/ s = "ok" /\ writerDone /\ ~wfail /\ dead = {}
        \/ s = "fail"      \* the writer left (seen, or silently: its error is what finalize returns), or the pipeline
                           \* ended well and a later write of the pack failed
        \/ s = "hang" /\ wfail /\ mainSt = "run" /\ ~closed /\ inQueue >= maxQ /\ Cardinality(dead) = W) = TRUE    \* PipelineFaults!Stuck
  /\ UNCHANGED ftvars_but_l

FTraceNext ==
  \/ FTraceNew
  \/ (TraceDispatch \/ TraceRaw \/ TraceTake \/ TraceDoneHook \/ TraceDec \/ TraceClose \/ TraceWorkerExit) /\ UNCHANGED nv
  \/ ~wfail /\ (TraceWrite \/ TraceAddrHook \/ TraceWriterExit \/ TraceTail \/ TraceEnd) /\ UNCHANGED nv
  \/ TracePanicWriter \/ TracePanicWorker \/ TracePanicMain \/ TraceOutcome
FTraceSpec == FTraceInit /\ [][FTraceNext]_ftvars
=============================================================================
