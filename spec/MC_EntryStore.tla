--------------------------- MODULE MC_EntryStore ---------------------------
(* Exhaustive configuration for EntryStore: every entry set (up to MaxEntries) over boundary
   value classes for a schema with one unsigned, one signed and one array column in the common
   part and two variants of unequal size ( V0 = {y: uint, x: uint},  V1 = {} ).
   The policy layout (what the code computes) is checked to be sufficient, to round-trip every
   value, to give equal-size variants and to be re-parsed by the reader's variant-splitting
   rule into the variants that were written. *)
EXTENDS EntryStore, Json

CONSTANTS UVals, SVals, AVals, YVals, XVals,   \* value classes of the columns
          VSet,                                  \* variants entries may take (subset of {0, 1})
          Prefix, StoreKind, MaxEntries,
          ReaderRule      \* "size": the pinned reader closes a variant as soon as its size is reached (F3)
                          \* "marker": a variant ends at the next VariantId / end of the key infos (repaired)

(* value classes the .cfg files substitute for the constants (Radix 4, 3 digits) *)
Zero3 == {<<0,0,0>>}
UBoundary == {<<0,0,0>>, <<3,0,0>>, <<0,1,0>>, <<3,3,0>>, <<0,0,1>>, <<3,3,3>>}
SBoundary == {<<0,0,0>>, <<1,0,0>>, <<3,3,3>>, <<2,0,0>>, <<2,3,3>>, <<1,3,3>>, <<3,1,0>>, <<0,2,0>>,
              <<0,2,3>>, <<3,1,3>>, <<3,3,1>>, <<0,0,2>>}
UTwo == {<<0,0,0>>, <<0,1,0>>}
YSome == {<<0,0,0>>, <<3,0,0>>, <<0,1,0>>}
XSome == {<<0,0,0>>, <<3,0,0>>, <<3,3,3>>}
AEmpty == {<<>>}
ASmall == {<<>>, <<0>>, <<1>>, <<0,0>>, <<0,1>>, <<1,0>>, <<1,1>>, <<0,0,0>>, <<0,1,1>>, <<1,1,1>>, <<1,1,1,1,1>>}

VARIABLES entries, phase
vars == <<entries, phase>>

Entry == [u : UVals, s : SVals, a : AVals, v : VSet, y : YVals, x : XVals]

Init == entries = <<>> /\ phase = "open"
AddEntry(e) == /\ phase = "open" /\ Len(entries) < MaxEntries
               /\ e.v = 1 => (e.y = CHOOSE q \in YVals : TRUE) /\ (e.x = CHOOSE q \in XVals : TRUE)
               /\ entries' = Append(entries, e) /\ UNCHANGED phase
Finalize == phase = "open" /\ Len(entries) > 0 /\ phase' = "final" /\ UNCHANGED entries
Next == (\E e \in Entry : AddEntry(e)) \/ Finalize
Spec == Init /\ [][Next]_vars

Idx == 1..Len(entries)
Col(f(_)) == {f(entries[i]) : i \in Idx}
V0 == {i \in Idx : entries[i].v = 0}

(* ---------------------------------------------------------------- policy layout *)
IntLayout(S, signed) ==
  IF S = {} THEN [hasDefault |-> FALSE, default |-> <<>>, width |-> 1]
  ELSE [hasDefault |-> Cardinality(S) = 1,
        default |-> IF Cardinality(S) = 1 THEN CHOOSE d \in S : TRUE ELSE <<>>,
        width |-> IF signed THEN SignedWidth(S) ELSE NeededUD(MaxBy(S, ULess))]
LU == IntLayout({entries[i].u : i \in Idx}, FALSE)
LS == IntLayout({entries[i].s : i \in Idx}, TRUE)
LY == IntLayout({entries[i].y : i \in V0}, FALSE)
LX == IntLayout({entries[i].x : i \in V0}, FALSE)
Store == StoreOf(StoreKind, {ArrRest(entries[i].a, Prefix) : i \in Idx})
LA == [lenWidth |-> NeededNat(LET S == {Len(entries[i].a) : i \in Idx} IN CHOOSE m \in S : \A n \in S : n <= m),
       idWidth |-> StoreKeyWidth(Store)]
ISize(l) == IF ~l.hasDefault THEN l.width ELSE 0
CommonSize == ISize(LU) + ISize(LS) + LA.lenWidth + Prefix + LA.idWidth
V0Size == 1 + ISize(LY) + ISize(LX)       \* variant id + properties
V1Size == 1
VMax == IF V0Size >= V1Size THEN V0Size ELSE V1Size
EntrySize == CommonSize + VMax
(* key infos as written: [vid |-> is a VariantId marker, size |-> bytes in the entry] *)
RECURSIVE Pads(_)
Pads(n) == IF n = 0 THEN <<>> ELSE IF n >= 16 THEN <<[vid |-> FALSE, size |-> 16]>> \o Pads(n - 16)
           ELSE <<[vid |-> FALSE, size |-> n]>>
KeyInfos ==
  <<[vid |-> FALSE, size |-> ISize(LU)], [vid |-> FALSE, size |-> ISize(LS)],
    [vid |-> FALSE, size |-> LA.lenWidth + Prefix + LA.idWidth]>>
  \o <<[vid |-> TRUE, size |-> 1], [vid |-> FALSE, size |-> ISize(LY)], [vid |-> FALSE, size |-> ISize(LX)]>>
  \o Pads(VMax - V0Size)
  \o <<[vid |-> TRUE, size |-> 1]>> \o Pads(VMax - V1Size)

(* ---------------------------------------------------------------- encode / decode *)
EncInt(d, l, signed) == IF ~l.hasDefault THEN TruncD(d, l.width) ELSE <<>>
DecInt(f, l, signed) == IF l.hasDefault THEN l.default
                        ELSE IF signed THEN ExtS(f, NDigits) ELSE ExtU(f, NDigits)
Encode(e) == [u |-> EncInt(e.u, LU, FALSE), s |-> EncInt(e.s, LS, TRUE),
              a |-> ArrEncode(e.a, Prefix, Store), v |-> e.v,
              y |-> IF e.v = 0 THEN EncInt(e.y, LY, FALSE) ELSE <<>>,
              x |-> IF e.v = 0 THEN EncInt(e.x, LX, FALSE) ELSE <<>>]
Decode(f) == [u |-> DecInt(f.u, LU, FALSE), s |-> DecInt(f.s, LS, TRUE),
              a |-> ArrDecode(f.a, Prefix, Store), v |-> f.v,
              y |-> IF f.v = 0 THEN DecInt(f.y, LY, FALSE) ELSE CHOOSE q \in YVals : TRUE,
              x |-> IF f.v = 0 THEN DecInt(f.x, LX, FALSE) ELSE CHOOSE q \in XVals : TRUE]

(* ---------------------------------------------------------------- the reader's variant split *)
(* returns the sequence of variants (each a sequence of key-info indices) or << <<-1>> >> *)
RECURSIVE Split(_, _, _, _, _, _)
Split(k, target, open, cur, acc, size) ==
  \* k: next key info; open: inside a variant; cur: its key infos; acc: closed variants; size: bytes so far
  IF k > Len(KeyInfos) THEN
    IF ReaderRule = "size" THEN (IF open \/ cur # <<>> THEN << <<-1>> >> ELSE acc)
    ELSE (IF ~open THEN acc ELSE IF size = target THEN Append(acc, cur) ELSE << <<-1>> >>)
  ELSE LET ki == KeyInfos[k] IN
    IF ReaderRule = "size" THEN
      IF ~ki.vid /\ ~open THEN << <<-1>> >>
      ELSE IF ki.vid /\ open THEN << <<-1>> >>
      ELSE IF ki.vid THEN Split(k + 1, target, TRUE, <<>>, acc, 0)
      ELSE IF size + ki.size > target THEN << <<-1>> >>
      ELSE IF size + ki.size = target THEN Split(k + 1, target, FALSE, <<>>, Append(acc, Append(cur, k)), 0)
      ELSE Split(k + 1, target, TRUE, Append(cur, k), acc, size + ki.size)
    ELSE
      IF ki.vid THEN
        IF open /\ size # target THEN << <<-1>> >>
        ELSE Split(k + 1, target, TRUE, <<>>, IF open THEN Append(acc, cur) ELSE acc, 0)
      ELSE IF ~open THEN << <<-1>> >>
      ELSE IF size + ki.size > target THEN << <<-1>> >>
      ELSE Split(k + 1, target, TRUE, Append(cur, k), acc, size + ki.size)

ReaderVariants == Split(4, EntrySize - CommonSize - 1, FALSE, <<>>, <<>>, 0)
WrittenVariants ==
  LET n0 == 2 + Len(Pads(VMax - V0Size)) n1 == Len(Pads(VMax - V1Size)) IN
  << [i \in 1..n0 |-> 4 + i], [i \in 1..n1 |-> 4 + n0 + 1 + i] >>

(* ---------------------------------------------------------------- invariants *)
Final == phase = "final"
RoundTrip == Final => \A i \in Idx : Decode(Encode(entries[i])) = entries[i]
SufficientInt(S, l, signed) ==
  \A d \in S : IF l.hasDefault THEN d = l.default
               ELSE IF signed THEN FitsSD(d, l.width) ELSE FitsUD(d, l.width)
Sufficient == Final =>
  /\ SufficientInt({entries[i].u : i \in Idx}, LU, FALSE)
  /\ SufficientInt({entries[i].s : i \in Idx}, LS, TRUE)
  /\ SufficientInt({entries[i].y : i \in V0}, LY, FALSE)
  /\ SufficientInt({entries[i].x : i \in V0}, LX, FALSE)
  /\ \A i \in Idx : FitsNat(Len(entries[i].a), LA.lenWidth)
                    /\ FitsNat(StoreId(Store, ArrRest(entries[i].a, Prefix)), LA.idWidth)
VariantsEqualSize == Final => V0Size + (VMax - V0Size) = V1Size + (VMax - V1Size)
LayoutReparses == Final => ReaderVariants = WrittenVariants
Replay == Final => PrintT(<<"REPLAY", ToJson([entries |-> entries, prefix |-> Prefix, kind |-> StoreKind])>>)
(* the store holds each distinct value once, ids resolve to the value *)
StoreResolves == Final => \A i \in Idx :
  LET r == ArrRest(entries[i].a, Prefix) IN StoreGet(Store, StoreId(Store, r), Len(r)) = r
=============================================================================
