------------------------------ MODULE JubakoTrace ------------------------------
(* Code -> spec for the root module: end-to-end histories (create in some packaging, then concat,
   prefix, removal / replacement of pack files, relocation, damage to the bytes of a pack) replayed
   on the real creator, tools and reader.  After every operation the orchestrator reports the state
   of the directory (Fs, Loc: from the independent decoder), the damage each pack carries (Dam) and
   what the reader answers (Open, Obs per content pack, Check); each answer must be the one
   Jubako.tla derives from that state. *)
EXTENDS Jubako, Json, IOUtils

Rec == ndJsonDeserialize(IOEnv.TRACE)
VARIABLE l
tvars == <<vars, l>>
TraceInit == Init /\ l = 1
IsEvent(e) == l <= Len(Rec) /\ Rec[l].ev = e /\ l' = l + 1
Paths == P!Paths

TraceConfig ==
  /\ IsEvent("Config")
  /\ fs' = [p \in Paths |-> P!NoFile] /\ loc' = [u \in Others |-> ""] /\ entry' = Rec[l].entry
  /\ lost' = {} /\ nops' = 0 /\ mode' = Rec[l].mode /\ dam' = [u \in {"m"} \cup Others |-> "ok"]
TraceFs ==
  /\ IsEvent("Fs") /\ Rec[l].path \in Paths
  /\ fs' = [fs EXCEPT ![Rec[l].path] = [kind |-> Rec[l].kind, packs |-> {Rec[l].packs[i] : i \in 1..Len(Rec[l].packs)},
                                         wrapped |-> Rec[l].wrapped, prefix |-> Rec[l].prefix]]
  /\ UNCHANGED <<loc, entry, lost, nops, mode, dam>>
TraceLoc ==
  /\ IsEvent("Loc") /\ Rec[l].pack \in Others
  /\ loc' = [loc EXCEPT ![Rec[l].pack] = Rec[l].path]
  /\ UNCHANGED <<fs, entry, lost, nops, mode, dam>>
TraceDam ==
  /\ IsEvent("Dam") /\ Rec[l].pack \in {"m"} \cup Others
  /\ dam' = [dam EXCEPT ![Rec[l].pack] = Rec[l].kind]
  /\ UNCHANGED <<fs, loc, entry, lost, nops, mode>>

TraceOpen ==
  /\ IsEvent("Open")
  /\ (IF Opens THEN Rec[l].res = "ok" ELSE Rec[l].res = "err") = TRUE
  /\ UNCHANGED vars
(* one content pack: found with the logical bytes / found with other bytes / missing / error *)
TraceObs ==
  /\ IsEvent("Obs") /\ Rec[l].pack \in ContentPacks
  /\ LET want == Read(Rec[l].pack) got == Rec[l].res IN
       (CASE want = "logical" -> got = "logical"
          [] want = "missing" -> got = "missing"
          [] want = "err" -> got = "err"
          [] want = "any_but_checked" -> got \in {"logical", "differs", "err"}
          [] OTHER -> FALSE) = TRUE
  /\ UNCHANGED vars
TraceCheck ==
  /\ IsEvent("Check")
  /\ (IF Check = "true" THEN Rec[l].res = "true" ELSE Rec[l].res \in {"false", "err"}) = TRUE
  /\ UNCHANGED vars

TraceNext == TraceConfig \/ TraceFs \/ TraceLoc \/ TraceDam \/ TraceOpen \/ TraceObs \/ TraceCheck
TraceSpec == TraceInit /\ [][TraceNext]_tvars
TraceAccepted ==
  LET d == TLCGet("stats").diameter IN
  IF d - 1 = Len(Rec) THEN TRUE
  ELSE /\ PrintT(<<"REJECTED", d, IF d <= Len(Rec) THEN Rec[d].ev ELSE "end">>)
       /\ FALSE
=============================================================================
