--------------------------- MODULE PackagingTrace ---------------------------
(* Code -> spec for C10, C11, C12.  For every configuration produced by the real creator and
   tools (packaging mode, concat, prefix, removal / replacement of pack files, relocation),
   the orchestrator reports what the independent decoder finds on disk (Fs: which file holds
   which pack identities; Loc: the location recorded in the manifest) and what the reader did
   (Open, Resolve per pack, DumpDiff, Check).  Each observation must be the one the
   property-level Locate of Packaging allows. *)
EXTENDS Packaging, Json, IOUtils

Rec == ndJsonDeserialize(IOEnv.TRACE)
VARIABLE l
tvars == <<vars, l>>

TraceInit == Init /\ l = 1
IsEvent(e) == l <= Len(Rec) /\ Rec[l].ev = e /\ l' = l + 1

(* a new configuration: forget everything *)
TraceConfig ==
  /\ IsEvent("Config")
  /\ fs' = [p \in Paths |-> NoFile] /\ loc' = [u \in Others |-> ""] /\ entry' = Rec[l].entry
  /\ lost' = {} /\ nops' = 0 /\ mode' = Rec[l].mode

TraceFs ==
  /\ IsEvent("Fs")
  /\ Rec[l].path \in Paths
  /\ fs' = [fs EXCEPT ![Rec[l].path] = [kind |-> Rec[l].kind, packs |-> {Rec[l].packs[i] : i \in 1..Len(Rec[l].packs)},
                                         wrapped |-> Rec[l].wrapped, prefix |-> Rec[l].prefix]]
  /\ UNCHANGED <<loc, entry, lost, nops, mode>>

TraceLoc ==
  /\ IsEvent("Loc")
  /\ Rec[l].pack \in Others
  /\ loc' = [loc EXCEPT ![Rec[l].pack] = Rec[l].path]
  /\ UNCHANGED <<fs, entry, lost, nops, mode>>

(* the container opens whenever its entry point holds the manifest and the directory pack is
   available *)
TraceOpen ==
  /\ IsEvent("Open")
  /\ ((Holds(entry, "m") /\ Available("d")) => Rec[l].res = "ok") = TRUE
  /\ UNCHANGED vars

(* what the reader answered for one pack: found (its own content), missing (with the pack's
   identity and recorded location), anything else is not allowed *)
TraceResolve ==
  /\ IsEvent("Resolve")
  /\ LET u == Rec[l].pack IN
       (/\ u \in ContentPacks
        /\ IF Locate(u) = "missing"
             THEN Rec[l].res = "missing" /\ Rec[l].uuidOk /\ Rec[l].locOk
             ELSE Rec[l].res = "found") = TRUE
  /\ UNCHANGED vars

(* items of the logical dump that differ from the logical container (available packs only) *)
TraceDumpDiff == IsEvent("DumpDiff") /\ Rec[l].n = 0 /\ UNCHANGED vars
(* the container check covers the packs that are present: true when they are intact, not true when
   one of them has a byte altered inside its checked range - whatever else is missing *)
TraceCheck == IsEvent("Check") /\ (IF Rec[l].damaged THEN Rec[l].res \in {"false", "err"} ELSE Rec[l].res = "true") /\ UNCHANGED vars

(* C12: one rewrite of a location *)
TraceSetLocation ==
  /\ IsEvent("SetLocation")
  /\ LET r == Rec[l] IN
       (IF r.known
          THEN /\ r.res = "ok" /\ r.found
               /\ r.diffOutside = 0            \* no byte changed outside the rewritten pack-info block
               /\ r.diffInsideOther = 0        \* inside it: only the location field and the block CRC
               /\ r.manifestOpens /\ r.manifestCheck = "true"
               /\ r.otherInfosSame /\ r.readBack
          ELSE /\ r.res = "ok" /\ ~r.found /\ r.diffOutside = 0 /\ r.diffInsideOther = 0 /\ r.fileSame) = TRUE
  /\ UNCHANGED vars

TraceNext == TraceConfig \/ TraceFs \/ TraceLoc \/ TraceOpen \/ TraceResolve \/ TraceDumpDiff \/ TraceCheck
             \/ TraceSetLocation
TraceSpec == TraceInit /\ [][TraceNext]_tvars

TraceAccepted ==
  LET d == TLCGet("stats").diameter IN
  IF d - 1 = Len(Rec) THEN TRUE
  ELSE /\ PrintT(<<"REJECTED", d, IF d <= Len(Rec) THEN Rec[d].ev ELSE "end">>)
       /\ FALSE
=============================================================================
