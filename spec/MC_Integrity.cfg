CONSTANTS
  MaxDamage = 2
SPECIFICATION Spec
INVARIANTS PristineVerifies CoveredDamageDetected StructureNeverSilentlyWrong ExemptIsExempt OutcomeIsValueOrError TruncationIsError
CHECK_DEADLOCK FALSE
