------------------------------- MODULE Jubako -------------------------------
(* Root of the specification: the life of one container from creation to reading, composing
   the machines of the other modules on shared state.

     Packaging   which file holds which pack, recorded locations, entry point     (C10, C11, C12)
     Integrity   what damage does to what the reader returns and to the checks    (C04, C05, C06)
     ContentPack / EntryStore / EntryOrder   what a pack holds (abstracted here to "its logical
                 content", established by C01, C02, C03, C15, C16 and, for the bytes, C14)
     AtomicCreate   the files appear all-or-nothing                                (C09)
     Decoder / ClusterPipeline / Views   how bytes are produced and looked at      (C07, C08, C13)

   State: the Packaging state plus, per pack, the kind of damage its bytes carry.  A behaviour
   is: create in some packaging, then any sequence of concat / prefix / removal / replacement /
   relocation / damage, with the reader allowed to open and read at any point.  The end-to-end
   statements relate the two halves:

     ReadIsLogicalOrReported   whatever the history, every pack reads as its logical content, is
                               reported missing, or reports an error / fails the check;
     CheckIsSound              when the container check says true, everything that is available
                               reads as its logical content (nothing is silently different);
     RelocationIsNeutral       rewriting locations never changes what any check says. *)
EXTENDS Naturals, Sequences, FiniteSets, TLC

CONSTANTS ContentPacks, Main, MaxOps

VARIABLES fs, loc, entry, lost, nops, mode,     \* Packaging
          dam                                   \* pack -> "ok" | "structure" | "content" | "exempt"
P == INSTANCE Packaging WITH LocatePolicy <- "identity"
vars == <<fs, loc, entry, lost, nops, mode, dam>>

Others == {"d"} \cup ContentPacks
Init == P!Init /\ dam = [u \in {"m"} \cup Others |-> "ok"]

(* damage to the bytes of one pack, wherever they are stored (Integrity.tla classifies bytes as:
   structure = CRC-verified blocks inside the checked range, content = cluster data,
   exempt = the location bytes of the manifest's pack infos) *)
Damage(u, kind) ==
  /\ entry # "" /\ nops < MaxOps
  /\ kind \in (IF u = "m" THEN {"structure", "exempt"} ELSE IF u = "d" THEN {"structure"} ELSE {"structure", "content"})
  /\ dam[u] \in {"ok", "exempt"}
  /\ dam' = [dam EXCEPT ![u] = kind]
  /\ nops' = nops + 1
  /\ UNCHANGED <<fs, loc, entry, lost, mode>>

Next == (P!Next /\ UNCHANGED dam) \/ \E u \in {"m"} \cup Others, k \in {"structure", "content", "exempt"} : Damage(u, k)
Spec == Init /\ [][Next]_vars

(* ------------------------------------------------------------------ the reader, end to end *)
Opens == entry # "" /\ P!Holds(entry, "m") /\ dam["m"] # "structure" /\ P!Available("d") /\ dam["d"] # "structure"
Read(u) ==                      \* get_bytes on a content of pack u
  IF ~Opens THEN "err"
  ELSE IF P!Locate(u) = "missing" THEN "missing"
  ELSE IF dam[u] = "structure" THEN "err"
  ELSE IF dam[u] = "content" THEN "any_but_checked"   \* cluster data is not covered by a CRC: the bytes read may differ, be
                                                      \* refused by the decoder, or (a bit the codec ignores) be the same;
                                                      \* what is required is that the check does not say true
  ELSE "logical"
PackCheck(u) == IF dam[u] \in {"structure", "content"} THEN "not_true" ELSE "true"
Check ==                        \* Container::check
  IF ~Opens THEN "not_true"
  ELSE IF PackCheck("m") = "not_true" \/ PackCheck("d") = "not_true" THEN "not_true"
  ELSE IF \E u \in ContentPacks : P!Locate(u) # "missing" /\ PackCheck(u) = "not_true" THEN "not_true"
  ELSE "true"

(* ------------------------------------------------------------------ end-to-end properties *)
ReadIsLogicalOrReported ==
  entry # "" => \A u \in ContentPacks :
    /\ Read(u) \in {"logical", "missing", "err", "any_but_checked"}
    /\ (Read(u) = "missing") <=> (Opens /\ ~P!Available(u))
    /\ (Read(u) = "any_but_checked") => Check = "not_true"
CheckIsSound ==
  (entry # "" /\ Check = "true") => \A u \in ContentPacks : P!Available(u) => Read(u) = "logical"
RelocationIsNeutral ==          \* the exempt bytes are exactly what a relocation rewrites
  \A u \in {"m"} \cup Others : dam[u] = "exempt" => PackCheck(u) = "true"
=============================================================================
