------------------------------- MODULE Bytes -------------------------------
(* Byte-string arithmetic shared by the other modules (bases/mod.rs::needed_bytes,
   bases/write.rs write_usized / write_isized, bases/parsing.rs read_usized / read_isized).
   Radix is a constant so that the exhaustive configurations can use a small "byte" (4)
   while the trace configurations use 256.  Values that fit TLC's 32-bit integers are
   plain naturals; 64-bit property values are handled as digit strings (Digits / Value). *)
EXTENDS Integers, Sequences, FiniteSets

CONSTANT Radix

RECURSIVE Pow(_, _)
Pow(b, n) == IF n = 0 THEN 1 ELSE b * Pow(b, n - 1)

(* needed_bytes: number of Radix-digits of v, at least 1 *)
RECURSIVE NeededBytes(_)
NeededBytes(v) == IF v < Radix THEN 1 ELSE 1 + NeededBytes(v \div Radix)

(* an unsigned value fits w digits: v < Radix^w, stated on the digit count so that widths whose power
   exceeds TLC's 32-bit integers (4 bytes and more with Radix = 256) can be evaluated; MC_Bytes!L3 checks
   that the two statements are the same *)
FitsU(v, w) == v >= 0 /\ NeededBytes(v) <= w

(* a signed value fits w digits in two's complement *)
FitsS(v, w) == LET half == Pow(Radix, w) \div 2 IN v >= -half /\ v < half

(* minimal signed width *)
RECURSIVE SNeededBytesFrom(_, _)
SNeededBytesFrom(v, w) == IF FitsS(v, w) THEN w ELSE SNeededBytesFrom(v, w + 1)
SNeededBytes(v) == SNeededBytesFrom(v, 1)

(* write_usized(v, w): keep the low w digits *)
TruncU(v, w) == v % Pow(Radix, w)

(* write_isized(v, w) then read_isized(w): low w digits, sign-extended *)
TruncS(v, w) ==
  LET m == Pow(Radix, w)
      r == v % m            \* TLC: % on negative dividends is the mathematical modulus
  IN IF r >= m \div 2 THEN r - m ELSE r

Max(a, b) == IF a >= b THEN a ELSE b
Min(a, b) == IF a <= b THEN a ELSE b
=============================================================================
