-------------------------- MODULE EntryOrderTrace --------------------------
(* Code -> spec for C03 and C15, on top of EntryStoreTrace (same events: what was written,
   handles, reads) plus
     Order : the store, read in position order, is non-decreasing in the reader's order of
             its sort keys (numeric for integers, lexicographic on whole byte strings);
     Find  : a lookup through the public RangeTrait::find with the library's comparator,
             every compare_entry call recorded.  Property level: every probe lies inside the
             window, the result is the entry carrying the key iff one was written.  Policy
             level (drift only): the probes are the `mid`s of the transcribed binary search /
             the linear scan. *)
EXTENDS EntryStoreTrace

KeyLess(a, b) ==          \* reader's order on one value
  CASE a.t = "u" -> ULess(a.d, b.d)
    [] a.t = "s" -> SLess(a.d, b.d)
    [] a.t = "a" -> BLess(a.d, b.d)
    [] OTHER -> FALSE
RECURSIVE KeysLess(_, _, _)
KeysLess(e1, e2, keys) ==
  IF Len(keys) = 0 THEN FALSE
  ELSE LET a == e1.values[Head(keys)] b == e2.values[Head(keys)] IN
       IF KeyLess(a, b) THEN TRUE ELSE IF KeyLess(b, a) THEN FALSE ELSE KeysLess(e1, e2, Tail(keys))
At(p) == written[inv[p + 1]]        \* the entry at final position p

TraceOrder ==
  /\ IsEvent("Order") /\ fin
  /\ (sorted # <<>> => \A p \in 0..(Len(written) - 2) : ~KeysLess(At(p + 1), At(p), sorted)) = TRUE
  /\ UNCHANGED <<written, pos, inv, layout, windows, sorted, fin, drift>>

KeyIs(e, names, vals) == \A k \in 1..Len(names) : e.values[names[k]] = vals[k]

(* policy level: the recorded probes follow the transcribed algorithm *)
RECURSIVE BinProbesOK(_, _, _, _, _)
BinProbesOK(probes, off, left, right, size) ==
  IF Len(probes) = 0 THEN TRUE
  ELSE LET mid == left + size \div 2 pr == Head(probes) IN
       /\ left < right /\ pr[1] = off + mid
       /\ IF pr[2] = -1 THEN BinProbesOK(Tail(probes), off, mid + 1, right, right - (mid + 1))
          ELSE IF pr[2] = 1 THEN BinProbesOK(Tail(probes), off, left, mid, mid - left)
          ELSE Len(probes) = 1
LinProbesOK(probes, off) == \A k \in 1..Len(probes) : probes[k][1] = off + k - 1

TraceFind ==
  /\ IsEvent("Find") /\ fin
  /\ Rec[l].index \in {windows[k].name : k \in 1..Len(windows)}
  /\ LET r == Rec[l] w == WindowOf(Rec[l].index) IN
       /\ (/\ r.complete => \A k \in 1..Len(r.probes) : r.probes[k][1] >= w.offset /\ r.probes[k][1] < w.offset + w.count
           /\ r.res >= -1
           /\ r.res >= 0 => (r.res < w.count /\ KeyIs(At(w.offset + r.res), r.props, r.vals))
           /\ r.res = -1 => \A i \in 0..(w.count - 1) : ~KeyIs(At(w.offset + i), r.props, r.vals)) = TRUE
       /\ drift' = drift + (IF ~r.complete \/ (IF r.ordered THEN BinProbesOK(r.probes, w.offset, 0, w.count, w.count)
                                                ELSE LinProbesOK(r.probes, w.offset)) THEN 0 ELSE 1)
  /\ UNCHANGED <<written, pos, inv, layout, windows, sorted, fin>>

OrderNext == TraceNext \/ TraceOrder \/ TraceFind
OrderSpec == TraceInit /\ [][OrderNext]_tvars
=============================================================================
