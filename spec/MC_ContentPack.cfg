\* default exhaustive configuration (compressing pack, plain adder); bin/check.py generates the
\* variants (Compressing/Cached, MaxAdds per tier) from this one
CONSTANTS
  Radix = 4
  MaxBlobs = 3
  BlobIdxLimit = 4
  ClusterIdxLimit = 16
  ClusterSize = 8
  CompressingSet = {TRUE, FALSE}
  CachedSet = {FALSE}
  CheckHint = TRUE
  WidthFromMax = TRUE
  TrackHistory = TRUE
  Sizes = {0, 1, 3, 8, 9}
  Cids = {1}
  MaxAdds = 4
  Overhead = 3
  ReplayMax = 3
SPECIFICATION MCSpec
INVARIANTS TypeOK AddrInjective BlobsDense BlobLimit ClusterIdDense KindConsistent DataSizeExact
  AddrResolves AddrDistinctUnlessDedup CountExact CompSizeRule HintRespected DedupShares
  PolicyAllowed TailOK
CHECK_DEADLOCK FALSE
