CONSTANTS
  ContentPacks = {"c1", "c2"}
  Main = "c1"
  MaxOps = 3
SPECIFICATION Spec
INVARIANTS ReadIsLogicalOrReported CheckIsSound RelocationIsNeutral
CHECK_DEADLOCK FALSE
