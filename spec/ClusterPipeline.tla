-------------------------- MODULE ClusterPipeline --------------------------
(* The cluster pipeline of the content-pack creator (creator/content_pack/clusterwriter.rs):
   the main thread dispatches closed clusters, W compression workers take them from an spmc
   channel and send their output (data + tail, tail offset *relative* to their buffer) to
   the single writer thread through an mpsc channel, raw clusters go straight to the writer;
   the writer appends to the file, rebases the tail offset and records it in the address
   table at the cluster's id.  Back-pressure: the main thread blocks while MaxQueue clusters
   are in the compression queue.  Property C08.

   Every step of the code is one action; the nondeterminism is the schedule. *)
EXTENDS Integers, Sequences, FiniteSets, TLC

CONSTANTS W,          \* number of compression workers
          N,          \* number of clusters; their kinds (raw / comp, in id order) are chosen initially
          MaxQueue,   \* back-pressure limit (code: 2 * W)
          Rebase,     \* BOOLEAN: the writer adds its file offset to the relative tail (code: TRUE)
          IndexAssign \* BOOLEAN: address table assigned by cluster id (code: TRUE) / pushed in arrival order

Ids == 0..(N - 1)
Workers == 1..W
Unset == -1
DataLen(id) == 1 + (id % 2)          \* plain data length of cluster id
CompLens == {1, 2}                   \* possible compressed lengths

VARIABLES
  Kinds,      \* sequence of cluster kinds in id order
  next,       \* next cluster id the main thread will send
  dispatchQ,  \* spmc channel: Seq of ids
  fusionQ,    \* mpsc channel: Seq of [id, kind, len, rel]  (rel = tail offset inside the task's buffer)
  inQueue,    \* nb_cluster_in_queue
  busy,       \* worker -> id or Unset
  txOpen,     \* main still holds its senders
  exited,     \* set of workers that left their loop
  filePos,    \* end of file
  segs,       \* Seq of [id, data, tail, end] : what was written where, in file order
  addr,       \* address table: Seq (index = id + 1, or arrival order if ~IndexAssign) of tail offsets
  writerDone

vars == <<Kinds, next, dispatchQ, fusionQ, inQueue, busy, txOpen, exited, filePos, segs, addr, writerDone>>

Init ==
  /\ Kinds \in [1..N -> {"raw", "comp"}]
  /\ next = 0 /\ dispatchQ = <<>> /\ fusionQ = <<>> /\ inQueue = 0
  /\ busy = [w \in Workers |-> Unset] /\ txOpen = TRUE /\ exited = {}
  /\ filePos = 0 /\ segs = <<>> /\ addr = <<>> /\ writerDone = FALSE

(* main thread: write_cluster *)
MainSendRaw ==
  /\ txOpen /\ next < N /\ Kinds[next + 1] = "raw"
  /\ fusionQ' = Append(fusionQ, [id |-> next, kind |-> "raw", len |-> DataLen(next), rel |-> DataLen(next)])
  /\ next' = next + 1
  /\ UNCHANGED <<Kinds, dispatchQ, inQueue, busy, txOpen, exited, filePos, segs, addr, writerDone>>
MainSendComp ==
  /\ txOpen /\ next < N /\ Kinds[next + 1] = "comp"
  /\ inQueue < MaxQueue                         \* wait_while(count >= max_queue_size)
  /\ inQueue' = inQueue + 1
  /\ dispatchQ' = Append(dispatchQ, next)
  /\ next' = next + 1
  /\ UNCHANGED <<Kinds, fusionQ, busy, txOpen, exited, filePos, segs, addr, writerDone>>
(* finalize: drop both senders *)
MainClose ==
  /\ txOpen /\ next = N /\ txOpen' = FALSE
  /\ UNCHANGED <<Kinds, next, dispatchQ, fusionQ, inQueue, busy, exited, filePos, segs, addr, writerDone>>

(* worker w: recv *)
WorkerTake(w) ==
  /\ w \notin exited /\ busy[w] = Unset /\ dispatchQ # <<>>
  /\ busy' = [busy EXCEPT ![w] = Head(dispatchQ)]
  /\ dispatchQ' = Tail(dispatchQ)
  /\ UNCHANGED <<Kinds, next, fusionQ, inQueue, txOpen, exited, filePos, segs, addr, writerDone>>
(* worker w: compress into its own buffer, send, decrement the counter, notify *)
WorkerDone(w) ==
  /\ busy[w] # Unset
  /\ \E cl \in CompLens :
       fusionQ' = Append(fusionQ, [id |-> busy[w], kind |-> "comp", len |-> cl, rel |-> cl])
  /\ inQueue' = inQueue - 1
  /\ busy' = [busy EXCEPT ![w] = Unset]
  /\ UNCHANGED <<Kinds, next, dispatchQ, txOpen, exited, filePos, segs, addr, writerDone>>
(* worker w: recv fails when the sender is dropped and the queue is empty *)
WorkerExit(w) ==
  /\ w \notin exited /\ busy[w] = Unset /\ dispatchQ = <<>> /\ ~txOpen
  /\ exited' = exited \cup {w}
  /\ UNCHANGED <<Kinds, next, dispatchQ, fusionQ, inQueue, busy, txOpen, filePos, segs, addr, writerDone>>

SetAddr(a, id, v) ==
  IF IndexAssign
    THEN [i \in 1..(IF Len(a) > id THEN Len(a) ELSE id + 1) |->
            IF i = id + 1 THEN v ELSE IF i <= Len(a) THEN a[i] ELSE Unset]
    ELSE Append(a, v)

(* writer thread: one task *)
WriterStep ==
  /\ fusionQ # <<>> /\ ~writerDone
  /\ LET t == Head(fusionQ)
         tail == IF t.kind = "raw" \/ Rebase THEN filePos + t.rel ELSE t.rel IN
       /\ segs' = Append(segs, [id |-> t.id, data |-> filePos, tail |-> filePos + t.len, end |-> filePos + t.len + 1])
       /\ filePos' = filePos + t.len + 1
       /\ addr' = SetAddr(addr, t.id, tail)
  /\ fusionQ' = Tail(fusionQ)
  /\ UNCHANGED <<Kinds, next, dispatchQ, inQueue, busy, txOpen, exited, writerDone>>
(* writer thread: recv fails when every sender (main + all workers) is gone *)
WriterExit ==
  /\ ~writerDone /\ fusionQ = <<>> /\ ~txOpen /\ exited = Workers
  /\ writerDone' = TRUE
  /\ UNCHANGED <<Kinds, next, dispatchQ, fusionQ, inQueue, busy, txOpen, exited, filePos, segs, addr>>

Next == MainSendRaw \/ MainSendComp \/ MainClose \/ WriterStep \/ WriterExit
        \/ \E w \in Workers : WorkerTake(w) \/ WorkerDone(w) \/ WorkerExit(w)
Spec == Init /\ [][Next]_vars
FairSpec == Spec /\ WF_vars(WriterStep) /\ WF_vars(WriterExit) /\ WF_vars(MainSendRaw) /\ WF_vars(MainSendComp)
            /\ WF_vars(MainClose)
            /\ \A w \in Workers : WF_vars(WorkerTake(w)) /\ WF_vars(WorkerDone(w)) /\ WF_vars(WorkerExit(w))

(* ------------------------------------------------------------------ properties *)
SegOf(id) == CHOOSE k \in 1..Len(segs) : segs[k].id = id
Written == {segs[k].id : k \in 1..Len(segs)}
QueueBound == inQueue <= MaxQueue /\ inQueue >= 0
WrittenOnce == \A j, k \in 1..Len(segs) : j # k => segs[j].id # segs[k].id
NoOverlap == \A k \in 1..(Len(segs) - 1) : segs[k].end <= segs[k + 1].data
(* the address recorded for a cluster points at its own tail *)
AddressPointsToOwnTail ==
  \A id \in Written : id + 1 <= Len(addr) /\ addr[id + 1] = segs[SegOf(id)].tail
(* at the end every cluster has exactly one address *)
AllAddressed == writerDone => (Len(addr) = N /\ Written = Ids)
Terminates == <>writerDone
NothingLost == writerDone => (dispatchQ = <<>> /\ fusionQ = <<>> /\ inQueue = 0)
=============================================================================
