CONSTANTS
  N = 6
  MaxViews = 6
  MaxReads = 5
  ReadSizes = {0, 1, 2, 3, 5, 9}
  MaxOps = 9
SPECIFICATION HSpec
INVARIANTS Nested Sizes ConversionsAgree ObsInside Replay
CHECK_DEADLOCK FALSE
