----------------------- MODULE ClusterPipelineTrace -----------------------
(* Code -> spec for C08.  Observed: the Progress callbacks of the real pipeline (NewCluster by
   the main thread, Handle by a compression worker or - for raw clusters - the writer, Written
   by the writer; one mutex, sequence numbers taken under it) and, after finalisation, the
   cluster table found in the file by the independent decoder (Seg events, in file order,
   Addr events: the address table).

   Property level (verdict): the invariants of ClusterPipeline on the observable projection -
   every cluster id written exactly once (WrittenOnce), segments do not overlap (NoOverlap),
   data immediately before its tail, the address of id points at the tail of the segment
   holding id (AddressPointsToOwnTail), every id below the count addressed (AllAddressed).
   Policy level (drift): the callbacks follow the protocol of ClusterPipeline (Handle after
   NewCluster, Written after Handle, file order = Written order). *)
EXTENDS Integers, Sequences, FiniteSets, TLC, Json, IOUtils

Rec == ndJsonDeserialize(IOEnv.TRACE)

VARIABLES l, opened, kind, handled, written, order, segs, lastEnd, addrs, workers, drift
tvars == <<l, opened, kind, handled, written, order, segs, lastEnd, addrs, workers, drift>>

TraceInit == l = 1 /\ opened = 0 /\ kind = <<>> /\ handled = {} /\ written = {} /\ order = <<>>
             /\ segs = <<>> /\ lastEnd = 0 /\ addrs = 0 /\ workers = 1 /\ drift = 0

IsEvent(e) == l <= Len(Rec) /\ Rec[l].ev = e /\ l' = l + 1
D(cond) == IF cond THEN 0 ELSE 1         \* one unit of drift when a policy-level expectation fails

TraceNew ==
  /\ IsEvent("New")
  /\ opened' = 0 /\ kind' = <<>> /\ handled' = {} /\ written' = {} /\ order' = <<>> /\ segs' = <<>>
  /\ lastEnd' = 0 /\ addrs' = 0 /\ workers' = Rec[l].workers /\ UNCHANGED drift

TraceNewCluster ==
  /\ IsEvent("NewCluster")
  /\ Rec[l].id = opened                          \* ids are dense (ClusterIdDense)
  /\ opened' = opened + 1 /\ kind' = Append(kind, Rec[l].comp)
  /\ UNCHANGED <<handled, written, order, segs, lastEnd, addrs, workers, drift>>

InCompression == {i \in handled : kind[i + 1] /\ i \notin written}

TraceHandle ==
  /\ IsEvent("Handle")
  /\ LET id == Rec[l].id IN
       /\ handled' = handled \cup {id}
       \* (the callbacks of different workers are not logged in channel order, and a worker may take
       \*  its next cluster before the writer has written its previous one: neither the id order of
       \*  compressed Handles nor "in compression <= workers" is an invariant of the observation)
       /\ drift' = drift + D(id < opened /\ id \notin handled /\ kind[id + 1] = Rec[l].comp)
  /\ UNCHANGED <<opened, kind, written, order, segs, lastEnd, addrs, workers>>

TraceWritten ==
  /\ IsEvent("Written")
  /\ LET id == Rec[l].id IN
       /\ written' = written \cup {id} /\ order' = Append(order, id)
       /\ drift' = drift + D(id \in handled /\ id \notin written)
  /\ UNCHANGED <<opened, kind, handled, segs, lastEnd, addrs, workers>>

(* the file, in file order *)
TraceSeg ==
  /\ IsEvent("Seg")
  /\ LET r == Rec[l] IN
       /\ (/\ r.id < opened /\ r.id \notin {segs[k] : k \in 1..Len(segs)}       \* WrittenOnce
           /\ r.data >= lastEnd                                                   \* NoOverlap
           /\ r.data + r.rawSize = r.tail /\ r.tail < r.end                       \* data right before its tail
           /\ r.compressed = kind[r.id + 1]) = TRUE
       /\ segs' = Append(segs, r.id) /\ lastEnd' = r.end
       /\ drift' = drift + D(Len(segs) < Len(order) /\ order[Len(segs) + 1] = r.id)
  /\ UNCHANGED <<opened, kind, handled, written, order, addrs, workers>>

(* the address table: entry id points at the tail of the segment that holds cluster id *)
TraceAddr ==
  /\ IsEvent("Addr")
  /\ (Rec[l].id = addrs /\ Rec[l].id < opened /\ Rec[l].tailOfOwnSeg) = TRUE
  /\ addrs' = addrs + 1
  /\ UNCHANGED <<opened, kind, handled, written, order, segs, lastEnd, workers, drift>>

TraceDone ==
  /\ IsEvent("Done")
  /\ (addrs = opened /\ Len(segs) = opened /\ Rec[l].clusterCount = opened) = TRUE        \* AllAddressed
  /\ UNCHANGED <<opened, kind, handled, written, order, segs, lastEnd, addrs, workers, drift>>

TraceNext == TraceNew \/ TraceNewCluster \/ TraceHandle \/ TraceWritten \/ TraceSeg \/ TraceAddr \/ TraceDone
TraceSpec == TraceInit /\ [][TraceNext]_tvars

Done == (l = Len(Rec) + 1) => PrintT(<<"DRIFT", drift>>)
TraceAccepted ==
  LET d == TLCGet("stats").diameter IN
  IF d - 1 = Len(Rec) THEN TRUE
  ELSE /\ PrintT(<<"REJECTED", d, IF d <= Len(Rec) THEN Rec[d].ev ELSE "end">>)
       /\ FALSE
=============================================================================
