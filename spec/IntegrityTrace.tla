---------------------------- MODULE IntegrityTrace ----------------------------
(* Code -> spec for C04, C05, C06.  One event per damaged (or truncated, extended, replaced) copy
   of a created container: where the damage falls (block and part, from the independent
   decoder's block map) and everything the reader answered (open, the items of the full logical
   dump compared with the pristine dump, every check, crashes).

   Verdict (property level), selected by Prop:
     C04  damage on bytes a pack's checksum covers  =>  that pack's check and the container check
          are not 'true';
     C05  no structural item differs; content bytes differ only if the check is not 'true';
     C06  every outcome is a value or an error (no panic, abort, signal, timeout).
   Policy level (drift): the outcome of Open / entries / content / checks is the one Integrity
   predicts from the blocks each operation verifies. *)
EXTENDS Integrity, Sequences, Json, IOUtils

CONSTANT Prop
Rec == ndJsonDeserialize(IOEnv.TRACE)
VARIABLES l, drift
tvars == <<vars, l, drift>>
TraceInit == damage = {} /\ trunc = 0 /\ l = 1 /\ drift = 0
IsEvent(e) == l <= Len(Rec) /\ Rec[l].ev = e /\ l' = l + 1

NotTrue(x) == x \in {"false", "err"}
Crash(x) == x \in {"panic", "abort", "signal", "timeout"}

G04(r) == r.covered => (NotTrue(r.check) /\ \A k \in 1..Len(r.coveredChecks) : NotTrue(r.coveredChecks[k]))
G05(r) == r.nDiffStruct = 0 /\ (r.nDiffContent > 0 => r.check # "true")
G06(r) == ~Crash(r.open) /\ r.nCrash = 0 /\ ~Crash(r.check)

Pred(r) ==      \* Integrity's prediction, evaluated on the damage of this case
  \* (opening walks the packs of the container in hash-map order until it meets the manifest: a
  \*  damaged header of another pack may or may not be visited)
  /\ (Open' = "err") => (r.open = "err")
  /\ (r.open = "err") => (Open' = "err" \/ \E p \in damage' : p[1] \in {"c.header", "d.header"})
  /\ (r.open = "ok" /\ Entries' = "same") => r.entriesSame
  /\ (r.open = "ok" /\ Content' = "same") => r.contentSame
  /\ (r.open = "ok") => (ContainerCheck' = r.check)

TraceCase ==
  /\ IsEvent("Case")
  /\ LET r == Rec[l] IN
       /\ damage' = {<<r.parts[k][1], r.parts[k][2]>> : k \in 1..Len(r.parts)}
       /\ trunc' = r.trunc
       /\ (CASE Prop = "C04" -> G04(r) [] Prop = "C05" -> G05(r) [] Prop = "C06" -> G06(r)) = TRUE
       /\ drift' = drift + (IF r.model /\ ~Pred(r) THEN 1 ELSE 0)

TraceNext == TraceCase
TraceSpec == TraceInit /\ [][TraceNext]_tvars
Done == (l = Len(Rec) + 1) => PrintT(<<"DRIFT", drift>>)
TraceAccepted ==
  LET d == TLCGet("stats").diameter IN
  IF d - 1 = Len(Rec) THEN TRUE
  ELSE /\ PrintT(<<"REJECTED", d, IF d <= Len(Rec) THEN Rec[d].ev ELSE "end">>)
       /\ FALSE
=============================================================================
