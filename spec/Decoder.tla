------------------------------- MODULE Decoder -------------------------------
(* Background decoding of compressed clusters and the readers that consume it
   (bases/io/compression.rs SyncVec / SeekableDecoder / decode_to_end, bases/cache.rs,
   reader/content_pack/{mod,cluster}.rs).  Property C07 (and the decoder clause of C06).

   One decoder task per cluster appends chunks to a buffer that is never reallocated and, after
   each chunk, publishes the new length under a mutex and notifies a condition variable.
   Readers wait (wait_while under the same mutex) until the length reaches the end of the range
   they want, then take a slice of the buffer of the published length.  Nothing else
   synchronises the bytes: safety rests on  published <= written  and on readers never looking
   past `published`.

   The condition variable is modelled explicitly: a reader that finds its predicate false
   blocks; a notification moves blocked readers back to re-evaluation.  Constants select the
   defects the model must expose: NotifyAll = FALSE (notify_one), Locked = FALSE (length stored
   and predicate checked without the mutex), PublishFirst = TRUE (length published before the
   bytes are written), ReportFailure = FALSE (a failing decoder wakes nobody - the pinned code). *)
EXTENDS Naturals, FiniteSets, TLC

CONSTANTS Readers, Total,      \* reader ids; number of chunks of the cluster
          MaxReq,              \* requests per reader
          MayFail,             \* BOOLEAN: the stream may error / end early at any chunk boundary
          NotifyAll, Locked, PublishFirst, ReportFailure

VARIABLES written,    \* chunks appended to the buffer
          published,  \* length stored under the mutex
          failed,     \* the decoder stopped on an error
          pend,       \* publisher: "idle" | "stored" (length stored, notification not yet sent; only when ~Locked)
          rpc,        \* reader -> "idle" | "check" | "blocked" | "ready" | "sliced" | "error" | "done"
          want,       \* reader -> end of the requested range
          got,        \* reader -> length of the slice it took
          nreq
vars == <<written, published, failed, pend, rpc, want, got, nreq>>

Init == /\ written = 0 /\ published = 0 /\ failed = FALSE /\ pend = "idle"
        /\ rpc = [r \in Readers |-> "idle"] /\ want = [r \in Readers |-> 0] /\ got = [r \in Readers |-> 0]
        /\ nreq = [r \in Readers |-> 0]

Wake(S) == [r \in Readers |-> IF r \in S /\ rpc[r] = "blocked" THEN "check" ELSE rpc[r]]
Blocked == {r \in Readers : rpc[r] = "blocked"}
Notify(state) == IF NotifyAll \/ Blocked = {} THEN {Wake(Blocked)}
                 ELSE {Wake({r}) : r \in Blocked}

(* decoder: read_to_end of one chunk into the buffer *)
WriteChunk ==
  /\ ~failed /\ pend = "idle" /\ written < Total
  /\ IF PublishFirst THEN written < published ELSE written = published
  /\ written' = written + 1
  /\ UNCHANGED <<published, failed, pend, rpc, want, got, nreq>>
(* decoder: lock; *decoded = uncompressed; notify_all; unlock *)
Publish ==
  /\ ~failed /\ pend = "idle"
  /\ IF PublishFirst THEN published = written /\ published < Total ELSE published < written
  /\ published' = IF PublishFirst THEN published + 1 ELSE written
  /\ IF Locked
       THEN \E w \in Notify(0) : rpc' = w /\ pend' = "idle"
       ELSE rpc' = rpc /\ pend' = "stored"
  /\ UNCHANGED <<written, failed, want, got, nreq>>
(* without the mutex the notification is a separate step *)
NotifyStep ==
  /\ pend = "stored"
  /\ \E w \in Notify(0) : rpc' = w
  /\ pend' = "idle"
  /\ UNCHANGED <<written, published, failed, want, got, nreq>>
(* decoder: the stream errors or ends early *)
Fail ==
  /\ MayFail /\ ~failed /\ pend = "idle" /\ written = published /\ written < Total
  /\ failed' = TRUE
  /\ rpc' = IF ReportFailure THEN Wake(Blocked) ELSE rpc
  /\ UNCHANGED <<written, published, pend, want, got, nreq>>

(* reader: decode_to(end) *)
Request(r, e) ==
  /\ rpc[r] = "idle" /\ nreq[r] < MaxReq /\ e \in 1..Total
  /\ rpc' = [rpc EXCEPT ![r] = "check"] /\ want' = [want EXCEPT ![r] = e] /\ nreq' = [nreq EXCEPT ![r] = @ + 1]
  /\ UNCHANGED <<written, published, failed, pend, got>>
(* reader: evaluate the predicate of wait_while (under the mutex: atomically with blocking) *)
Check(r) ==
  /\ rpc[r] = "check"
  /\ (Locked => pend = "idle")
  /\ rpc' = [rpc EXCEPT ![r] = IF published >= want[r] THEN "ready"
                                ELSE IF failed /\ ReportFailure THEN "error"
                                ELSE IF Locked THEN "blocked" ELSE "toblock"]
  /\ UNCHANGED <<written, published, failed, pend, want, got, nreq>>
(* without the mutex, blocking is a separate step: a notification may fall in between *)
Block(r) ==
  /\ rpc[r] = "toblock"
  /\ rpc' = [rpc EXCEPT ![r] = "blocked"]
  /\ UNCHANGED <<written, published, failed, pend, want, got, nreq>>
(* reader: decoded_slice(): current_size under the mutex, slice of that length *)
Slice(r) ==
  /\ rpc[r] = "ready"
  /\ got' = [got EXCEPT ![r] = published]
  /\ rpc' = [rpc EXCEPT ![r] = "sliced"]
  /\ UNCHANGED <<written, published, failed, pend, want, nreq>>
Finish(r) ==
  /\ rpc[r] \in {"sliced", "error"}
  /\ rpc' = [rpc EXCEPT ![r] = IF nreq[r] < MaxReq THEN "idle" ELSE "done"]
  /\ UNCHANGED <<written, published, failed, pend, want, got, nreq>>

Next == WriteChunk \/ Publish \/ NotifyStep \/ Fail
        \/ \E r \in Readers : (\E e \in 1..Total : Request(r, e)) \/ Check(r) \/ Block(r) \/ Slice(r) \/ Finish(r)
Spec == Init /\ [][Next]_vars
FairSpec == Spec /\ WF_vars(WriteChunk) /\ WF_vars(Publish) /\ WF_vars(NotifyStep)
            /\ \A r \in Readers : WF_vars(Check(r)) /\ WF_vars(Block(r)) /\ WF_vars(Slice(r)) /\ WF_vars(Finish(r))

(* ------------------------------------------------------------------ properties *)
LengthsOrdered == published <= Total /\ written <= Total /\ (~PublishFirst => published <= written)
(* a slice handed to a reader covers what it asked for and never extends past what is written *)
ReadsBelowWritten == \A r \in Readers : rpc[r] = "sliced" => (want[r] <= got[r] /\ got[r] <= written)
(* every request is eventually served, or ends with an error when the decoder failed *)
Served == \A r \in Readers : (rpc[r] = "check") ~> (rpc[r] \in {"sliced", "error"})
=============================================================================
