------------------------------ MODULE ViewsTrace ------------------------------
(* Code -> spec for C13: every operation applied to the views of a stored content through the
   public API, with what it returned.  The returned bytes are located in the content by the
   orchestrator (position-coded contents): `cands` is the set of positions where exactly these
   bytes occur, `free` says that they are empty.  A step is accepted only if the operation is
   the action of Views and the bytes / sizes / offsets are the ones its denotation fixes. *)
EXTENDS Views, Json, IOUtils

Rec == ndJsonDeserialize(IOEnv.TRACE)
VARIABLE l
tvars == <<vars, l>>
TraceInit == Init /\ l = 1
IsEvent(e) == l <= Len(Rec) /\ Rec[l].ev = e /\ l' = l + 1

Located(r, from, to) == (to - from = r.len) /\ (r.free \/ from \in {r.cands[i] : i \in 1..Len(r.cands)})

TraceSrc ==
  /\ IsEvent("Src")
  /\ views' = <<[kind |-> Rec[l].kind, b |-> 0, e |-> Rec[l].n, c |-> 0, parent |-> 0]>>
  /\ reads' = 0 /\ last' = NoObs

(* the root view itself was observed *)
TraceRoot ==
  /\ IsEvent("Root")
  /\ (Rec[l].size = Size(views[1]) /\ Located(Rec[l], 0, Size(views[1]))) = TRUE
  /\ UNCHANGED vars

ObsNewView(r) ==
  LET v == views'[Len(views')] IN
  /\ r.kind = v.kind
  /\ r.size = Size(v)
  /\ IF v.kind = "stream" THEN r.offset = Offset(v) /\ r.sizeLeft = SizeLeft(v)
     ELSE Located(r, v.b, v.e)

TraceStep ==
  /\ IsEvent("Step")
  /\ LET r == Rec[l] IN
       /\ r.v \in 1..Len(views)
       /\ CASE r.op = "cut" -> Cut(r.v, r.a, r.n) /\ ObsNewView(r) = TRUE
            [] r.op = "as_slice" -> AsSlice(r.v) /\ ObsNewView(r) = TRUE
            [] r.op = "to_region" -> ToRegion(r.v) /\ ObsNewView(r) = TRUE
            [] r.op = "stream" -> ToStream(r.v) /\ ObsNewView(r) = TRUE
            [] r.op = "into_stream" -> IntoStream(r.v) /\ ObsNewView(r) = TRUE
            [] r.op = "read" -> /\ Read(r.v, r.n, r.len)
                                /\ (/\ r.kind = "read" /\ Located(r, last'.from, last'.to)
                                    /\ r.size = Size(views'[r.v]) /\ r.offset = Offset(views'[r.v])
                                    /\ r.sizeLeft = SizeLeft(views'[r.v])) = TRUE
            [] r.op = "read_exact" -> /\ ReadExact(r.v, r.n, r.len)
                                      /\ (/\ r.kind = "read" /\ Located(r, last'.from, last'.to)
                                          /\ r.size = Size(views'[r.v]) /\ r.offset = Offset(views'[r.v])
                                          /\ r.sizeLeft = SizeLeft(views'[r.v])) = TRUE
            [] r.op = "read_to_end" -> /\ ReadToEnd(r.v, r.len)
                                       /\ (/\ r.kind = "read" /\ Located(r, last'.from, last'.to)
                                           /\ r.size = Size(views'[r.v]) /\ r.offset = Offset(views'[r.v])
                                           /\ r.sizeLeft = SizeLeft(views'[r.v])) = TRUE
            [] r.op = "get_slice" -> /\ GetSlice(r.v, r.a, r.n)
                                     /\ (r.kind = "bytes" /\ Located(r, last'.from, last'.to)) = TRUE
            [] OTHER -> FALSE

TraceNext == TraceSrc \/ TraceRoot \/ TraceStep
TraceSpec == TraceInit /\ [][TraceNext]_tvars
TraceAccepted ==
  LET d == TLCGet("stats").diameter IN
  IF d - 1 = Len(Rec) THEN TRUE
  ELSE /\ PrintT(<<"REJECTED", d, IF d <= Len(Rec) THEN Rec[d].ev ELSE "end">>)
       /\ FALSE
=============================================================================
