CONSTANTS
  Radix = 4
  NDigits = 3
  SignedRule = "minmax"
  Mode = "refs"
  Alphabet = {0}
  MaxLen = 0
  Prefixes = {0}
  StoreKinds = {"plain"}
  MaxKeys = 1
  KeyDomain = {0}
  MaxSeq = 0
  NEntries = 4
  SizeBeforeAssign = FALSE
SPECIFICATION Spec
INVARIANTS RefsAreFinal HandlesAreFinal
CHECK_DEADLOCK FALSE
