----------------------------- MODULE ClusterCache -----------------------------
(* The cluster cache of an opened content pack (reader/content_pack/mod.rs get_cluster,
   bases/cache.rs) and the readers that hold clusters obtained from it.  Part of property C07:
   "... while clusters ... are being evicted from the cache ... each read returns exactly the
   stored bytes".

   get_cluster locks the cache, returns the cached cluster object (moving it to the front) or
   parses the cluster again, inserts the new object and drops the least recently used one.
   The caller keeps a counted reference: an evicted object stays usable by whoever holds it,
   and a later access to the same cluster creates a second, independent object with its own
   decoder.  What a reader reads is decided by the object it holds, never by what the cache
   holds now.

   Variant the model must expose: Counted = FALSE (the cache owns the objects: eviction frees
   the object under a reader that still uses it). *)
EXTENDS Naturals, Sequences, FiniteSets, TLC, Lru

CONSTANTS Clusters, Slots, Readers, MaxGets,
          Counted          \* BOOLEAN: readers hold counted references (the code: Arc<Cluster>)
VARIABLES cache,           \* sequence of cluster ids, most recently used first
          gen,             \* cluster -> how many objects were created for it so far
          cur,             \* cluster -> generation of the object the cache holds (0 = none)
          live,            \* set of <<cluster, generation>>: objects not freed
          held,            \* reader -> <<cluster, generation>> or <<>>
          asked,           \* reader -> cluster it asked for (0 = none)
          reads,           \* reader -> what its last read saw: "none" | "own" | "freed" | "foreign"
          ngets
vars == <<cache, gen, cur, live, held, asked, reads, ngets>>

Init == /\ cache = <<>> /\ gen = [c \in Clusters |-> 0] /\ cur = [c \in Clusters |-> 0] /\ live = {}
        /\ held = [r \in Readers |-> <<>>] /\ asked = [r \in Readers |-> 0] /\ reads = [r \in Readers |-> "none"]
        /\ ngets = 0

Holders(o) == {r \in Readers : held[r] = o}
(* objects dropped by the cache are freed at once when nobody counts a reference *)
Free(objs, heldNow) == IF Counted THEN {o \in objs : \A r \in Readers : heldNow[r] # o} ELSE objs

(* one critical section of the cache mutex *)
Get(r, c) ==
  /\ ngets < MaxGets /\ held[r] = <<>>
  /\ ngets' = ngets + 1 /\ asked' = [asked EXCEPT ![r] = c]
  /\ cache' = Touch(cache, c, Slots)
  /\ IF c \in Keys(cache)
       THEN /\ held' = [held EXCEPT ![r] = <<c, cur[c]>>]
            /\ UNCHANGED <<gen, cur, live>>
       ELSE LET o == <<c, gen[c] + 1>>
                out == {<<k, cur[k]>> : k \in Evicted(cache, c, Slots)}
                h2 == [held EXCEPT ![r] = o] IN
            /\ gen' = [gen EXCEPT ![c] = gen[c] + 1]
            /\ cur' = [k \in Clusters |-> IF k = c THEN gen[c] + 1 ELSE IF k \in Evicted(cache, c, Slots) THEN 0 ELSE cur[k]]
            /\ held' = h2
            /\ live' = (live \cup {o}) \ Free(out, h2)
  /\ UNCHANGED reads
(* a read through the held object, outside the cache mutex *)
Read(r) ==
  /\ held[r] # <<>>
  /\ reads' = [reads EXCEPT ![r] = IF held[r] \notin live THEN "freed" ELSE IF held[r][1] = asked[r] THEN "own" ELSE "foreign"]
  /\ UNCHANGED <<cache, gen, cur, live, held, asked, ngets>>
(* the reader drops its reference; the last reference to an evicted object frees it *)
Release(r) ==
  /\ held[r] # <<>>
  /\ LET o == held[r]
         h2 == [held EXCEPT ![r] = <<>>] IN
       /\ held' = h2
       /\ live' = IF cur[o[1]] # o[2] /\ (\A q \in Readers : h2[q] # o) THEN live \ {o} ELSE live
  /\ UNCHANGED <<cache, gen, cur, asked, reads, ngets>>

Next == \E r \in Readers : (\E c \in Clusters : Get(r, c)) \/ Read(r) \/ Release(r)
Spec == Init /\ [][Next]_vars

Bounded == Len(cache) <= Slots /\ Cardinality(Keys(cache)) = Len(cache)
CacheHoldsCurrent == \A c \in Clusters : (c \in Keys(cache)) <=> (cur[c] # 0 /\ <<c, cur[c]>> \in live)
(* C07: whatever was evicted meanwhile, a reader reads the cluster it asked for, from an object that still exists *)
ReadsOwnCluster == \A r \in Readers : reads[r] \in {"none", "own"}
(* nothing leaks: an object that is neither cached nor held is freed *)
NoLeak == \A o \in live : cur[o[1]] = o[2] \/ Holders(o) # {}
(* reachable on purpose: two objects of one cluster alive at once (held evicted one + fresh cached one) *)
NeverTwoObjects == \A o1, o2 \in live : o1[1] = o2[1] => o1 = o2
=============================================================================
