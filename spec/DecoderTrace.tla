------------------------------ MODULE DecoderTrace ------------------------------
(* Code -> spec for C07: hook events of the real decoder and readers (hooked build).  Every
   event is emitted while the mutex that protects the published length is held (Publish,
   WaitDone, Slice, Fail) or by the single writer of the buffer (Write), so the order of the
   log restricted to one buffer is the order in which that buffer's state changed.

   Acceptance = the protocol invariants of Decoder.tla on what was observed:
     Write    the writer only appends:               written  <= upto <= total
     Publish  published <= len <= written            (LengthsOrdered)
     WaitDone a wait ends only when the range is there (seen >= end) or the decoder failed,
              and `seen` is the published length
     Slice    the slice handed out is the published length (<= written)   (ReadsBelowWritten)
     ReadOk   the bytes read equal the stored bytes
     CacheGet the cache never holds more than its capacity; policy level: hit / miss and the
              number of cached clusters are the ones the LRU policy of Lru.tla gives for the
              sequence of accesses seen so far (the hook fires inside the cache mutex, so the
              log order is the order of the critical sections) *)
EXTENDS Naturals, Sequences, FiniteSets, TLC, Json, IOUtils, Lru

CONSTANT CacheSlots
Rec == ndJsonDeserialize(IOEnv.TRACE)
VARIABLES l, bufs,     \* bufs: buffer id -> [total, written, published, failed]
          built, drift, \* cluster objects whose plain reader was built; policy-level departures
          cache         \* the cluster cache as Lru.tla predicts it (cluster numbers, most recent first)
tvars == <<l, bufs, built, drift, cache>>
TraceInit == l = 1 /\ bufs = <<>> /\ built = {} /\ drift = 0 /\ cache = <<>>
IsEvent(e) == l <= Len(Rec) /\ Rec[l].ev = e /\ l' = l + 1
Known(b) == b \in DOMAIN bufs
Upd(b, rec) == [x \in DOMAIN bufs \cup {b} |-> IF x = b THEN rec ELSE bufs[x]]

TraceRun == IsEvent("Run") /\ bufs' = <<>> /\ built' = {} /\ cache' = <<>> /\ UNCHANGED drift
TraceBuf ==
  /\ IsEvent("Buf")
  /\ bufs' = Upd(Rec[l].buf, [total |-> Rec[l].a, written |-> 0, published |-> 0, failed |-> FALSE])
  /\ UNCHANGED <<built, drift, cache>>
TraceWrite ==
  /\ IsEvent("Write") /\ Known(Rec[l].buf)
  /\ LET s == bufs[Rec[l].buf] IN
       /\ (Rec[l].a >= s.written /\ Rec[l].a <= s.total) = TRUE
       /\ bufs' = Upd(Rec[l].buf, [s EXCEPT !.written = Rec[l].a])
  /\ UNCHANGED <<built, drift, cache>>
TracePublish ==
  /\ IsEvent("Publish") /\ Known(Rec[l].buf)
  /\ LET s == bufs[Rec[l].buf] IN
       /\ (Rec[l].a >= s.published /\ Rec[l].a <= s.written) = TRUE
       /\ bufs' = Upd(Rec[l].buf, [s EXCEPT !.published = Rec[l].a])
  /\ UNCHANGED <<built, drift, cache>>
TraceFail ==
  /\ IsEvent("Fail") /\ Known(Rec[l].buf)
  /\ bufs' = Upd(Rec[l].buf, [bufs[Rec[l].buf] EXCEPT !.failed = TRUE])
  /\ UNCHANGED <<built, drift, cache>>
TraceWaitDone ==
  /\ IsEvent("WaitDone") /\ Known(Rec[l].buf)
  /\ LET s == bufs[Rec[l].buf] IN
       (Rec[l].b = s.published /\ (Rec[l].b >= Rec[l].a \/ s.failed)) = TRUE
  /\ UNCHANGED <<bufs, built, drift, cache>>
TraceSlice ==
  /\ IsEvent("Slice") /\ Known(Rec[l].buf)
  /\ LET s == bufs[Rec[l].buf] IN (Rec[l].a = s.published /\ Rec[l].a <= s.written) = TRUE
  /\ UNCHANGED <<bufs, built, drift, cache>>
TraceCacheGet ==
  /\ IsEvent("CacheGet") /\ (Rec[l].size <= CacheSlots) = TRUE
  /\ drift' = drift + (IF Rec[l].hit = (Rec[l].cluster \in Keys(cache)) /\ Rec[l].size = Len(cache) THEN 0 ELSE 1)
  /\ cache' = Touch(cache, Rec[l].cluster, CacheSlots)
  \* a miss creates a cluster object, possibly at the address of one that was freed: addresses identify objects only between misses
  /\ built' = IF Rec[l].hit THEN built ELSE {}
  /\ UNCHANGED bufs
(* policy level: the plain reader of one cluster object is built once (decoding it twice is wasteful, not wrong);
   objects are known by address, which is only meaningful until the next miss *)
TraceBuildPlain == /\ IsEvent("BuildPlain")
                   /\ drift' = drift + (IF Rec[l].buf \in built THEN 1 ELSE 0)
                   /\ built' = built \cup {Rec[l].buf} /\ UNCHANGED <<bufs, cache>>
TraceReadOk == IsEvent("ReadOk") /\ Rec[l].res = "equal" /\ UNCHANGED <<bufs, built, drift, cache>>
TraceConcDone == IsEvent("ConcDone") /\ Rec[l].ok /\ UNCHANGED <<bufs, built, drift, cache>>

(* a decoder started during an earlier run may still be working when the next run begins (the pack was dropped, the
   decoder keeps its buffer alive until it is done): its events concern a buffer this run never created and are skipped *)
TraceLeftover ==
  /\ l <= Len(Rec) /\ Rec[l].ev \in {"Write", "Publish", "Fail", "WaitDone", "Slice"} /\ ~Known(Rec[l].buf)
  /\ l' = l + 1 /\ UNCHANGED <<bufs, built, drift, cache>>

TraceNext == TraceLeftover \/ TraceRun \/ TraceBuf \/ TraceWrite \/ TracePublish \/ TraceFail \/ TraceWaitDone \/ TraceSlice
             \/ TraceCacheGet \/ TraceBuildPlain \/ TraceReadOk \/ TraceConcDone
TraceSpec == TraceInit /\ [][TraceNext]_tvars
Done == (l = Len(Rec) + 1) => PrintT(<<"DRIFT", drift>>)
TraceAccepted ==
  LET d == TLCGet("stats").diameter IN
  IF d - 1 = Len(Rec) THEN TRUE
  ELSE /\ PrintT(<<"REJECTED", d, IF d <= Len(Rec) THEN Rec[d].ev ELSE "end">>)
       /\ FALSE
=============================================================================
