------------------------------ MODULE DecoderTrace ------------------------------
(* Code -> spec for C07: hook events of the real decoder and readers (hooked build).  Every
   event is emitted while the mutex that protects the published length is held (Publish,
   WaitDone, Slice, Fail) or by the single writer of the buffer (Write), so the order of the
   log restricted to one buffer is the order in which that buffer's state changed.

   Acceptance = the protocol invariants of Decoder.tla on what was observed:
     Write    the writer only appends:               written  <= upto <= total
     Publish  published <= len <= written            (LengthsOrdered)
     WaitDone a wait ends only when the range is there (seen >= end) or the decoder failed,
              and `seen` is the published length
     Slice    the slice handed out is the published length (<= written)   (ReadsBelowWritten)
     ReadOk   the bytes read equal the stored bytes
     CacheGet the cache never holds more than its capacity *)
EXTENDS Naturals, Sequences, FiniteSets, TLC, Json, IOUtils

CONSTANT CacheSlots
Rec == ndJsonDeserialize(IOEnv.TRACE)
VARIABLES l, bufs      \* bufs: buffer id -> [total, written, published, failed]
tvars == <<l, bufs>>
TraceInit == l = 1 /\ bufs = <<>>
IsEvent(e) == l <= Len(Rec) /\ Rec[l].ev = e /\ l' = l + 1
Known(b) == b \in DOMAIN bufs
Upd(b, rec) == [x \in DOMAIN bufs \cup {b} |-> IF x = b THEN rec ELSE bufs[x]]

TraceRun == IsEvent("Run") /\ bufs' = <<>>
TraceBuf ==
  /\ IsEvent("Buf")
  /\ bufs' = Upd(Rec[l].buf, [total |-> Rec[l].a, written |-> 0, published |-> 0, failed |-> FALSE])
TraceWrite ==
  /\ IsEvent("Write") /\ Known(Rec[l].buf)
  /\ LET s == bufs[Rec[l].buf] IN
       /\ (Rec[l].a >= s.written /\ Rec[l].a <= s.total) = TRUE
       /\ bufs' = Upd(Rec[l].buf, [s EXCEPT !.written = Rec[l].a])
TracePublish ==
  /\ IsEvent("Publish") /\ Known(Rec[l].buf)
  /\ LET s == bufs[Rec[l].buf] IN
       /\ (Rec[l].a >= s.published /\ Rec[l].a <= s.written) = TRUE
       /\ bufs' = Upd(Rec[l].buf, [s EXCEPT !.published = Rec[l].a])
TraceFail ==
  /\ IsEvent("Fail") /\ Known(Rec[l].buf)
  /\ bufs' = Upd(Rec[l].buf, [bufs[Rec[l].buf] EXCEPT !.failed = TRUE])
TraceWaitDone ==
  /\ IsEvent("WaitDone") /\ Known(Rec[l].buf)
  /\ LET s == bufs[Rec[l].buf] IN
       (Rec[l].b = s.published /\ (Rec[l].b >= Rec[l].a \/ s.failed)) = TRUE
  /\ UNCHANGED bufs
TraceSlice ==
  /\ IsEvent("Slice") /\ Known(Rec[l].buf)
  /\ LET s == bufs[Rec[l].buf] IN (Rec[l].a = s.published /\ Rec[l].a <= s.written) = TRUE
  /\ UNCHANGED bufs
TraceCacheGet == IsEvent("CacheGet") /\ (Rec[l].size <= CacheSlots) = TRUE /\ UNCHANGED bufs
TraceBuildPlain == IsEvent("BuildPlain") /\ UNCHANGED bufs
TraceReadOk == IsEvent("ReadOk") /\ Rec[l].res = "equal" /\ UNCHANGED bufs
TraceConcDone == IsEvent("ConcDone") /\ Rec[l].ok /\ UNCHANGED bufs

TraceNext == TraceRun \/ TraceBuf \/ TraceWrite \/ TracePublish \/ TraceFail \/ TraceWaitDone \/ TraceSlice
             \/ TraceCacheGet \/ TraceBuildPlain \/ TraceReadOk \/ TraceConcDone
TraceSpec == TraceInit /\ [][TraceNext]_tvars
TraceAccepted ==
  LET d == TLCGet("stats").diameter IN
  IF d - 1 = Len(Rec) THEN TRUE
  ELSE /\ PrintT(<<"REJECTED", d, IF d <= Len(Rec) THEN Rec[d].ev ELSE "end">>)
       /\ FALSE
=============================================================================
