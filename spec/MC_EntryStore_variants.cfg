\* variants of unequal size with constant / varying columns
CONSTANTS
  Radix = 4
  NDigits = 3
  SignedRule = "minmax"
  ReaderRule = "marker"
  UVals <- UTwo
  SVals <- Zero3
  AVals <- AEmpty
  YVals <- YSome
  XVals <- XSome
  VSet = {0, 1}
  Prefix = 0
  StoreKind = "indexed"
  MaxEntries = 3
SPECIFICATION Spec
INVARIANTS RoundTrip Sufficient VariantsEqualSize LayoutReparses StoreResolves
CHECK_DEADLOCK FALSE
