CONSTANTS
  Radix = 4
  NDigits = 3
  SignedRule = "minmax"
  Mode = "order"
  Alphabet = {0, 1, 2}
  MaxLen = 3
  Prefixes = {0, 1, 2, 3}
  StoreKinds = {"plain", "indexed"}
  MaxKeys = 2
  KeyDomain = {0}
  MaxSeq = 0
  NEntries = 1
  SizeBeforeAssign = FALSE
SPECIFICATION Spec
INVARIANTS WriterOrderIsReaderOrder
CHECK_DEADLOCK FALSE
