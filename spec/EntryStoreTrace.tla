-------------------------- MODULE EntryStoreTrace --------------------------
(* Code -> spec for C02 (and the handle / position part of C15, the decoded-content part of
   C14): what was written through the schema, the layout the independent decoder found in the
   bytes, the final positions reported by the handles and what the reader returned.

   Values are JSON records [t |-> "u" | "s" | "a" | "c", d |-> digits]: integers as 8
   little-endian bytes (two's complement for "s"), arrays as their bytes, content addresses
   as <<pack, idx>>.  Acceptance is at property level: the decoded layout must be sufficient
   for every value written (any width that holds the value), every read must return exactly
   the entry written at that final position, windows expose exactly their entries. *)
EXTENDS EntryStore, Json, IOUtils

Rec == ndJsonDeserialize(IOEnv.TRACE)

VARIABLES l, written, pos, inv, layout, windows, sorted, fin, drift
tvars == <<l, written, pos, inv, layout, windows, sorted, fin, drift>>

TraceInit == l = 1 /\ written = <<>> /\ pos = <<>> /\ inv = <<>> /\ layout = <<>> /\ windows = <<>>
             /\ sorted = <<>> /\ fin = FALSE /\ drift = 0

IsEvent(e) == l <= Len(Rec) /\ Rec[l].ev = e /\ l' = l + 1

TraceScn ==
  /\ IsEvent("Scn")
  /\ written' = <<>> /\ pos' = <<>> /\ inv' = <<>> /\ layout' = <<>> /\ windows' = <<>>
  /\ sorted' = Rec[l].sortKeys /\ fin' = FALSE /\ UNCHANGED drift   \* sortKeys: names, <<>> = unsorted

TraceEntry ==
  /\ IsEvent("Entry") /\ ~fin
  /\ written' = Append(written, [variant |-> Rec[l].variant, values |-> Rec[l].values])
  /\ UNCHANGED <<pos, inv, layout, windows, sorted, fin, drift>>

(* the same, all entries of a large store in one event (appending one by one copies the sequence each time) *)
TraceEntries ==
  /\ IsEvent("Entries") /\ ~fin /\ written = <<>>
  /\ written' = Rec[l].entries
  /\ UNCHANGED <<pos, inv, layout, windows, sorted, fin, drift>>

TraceFinalize == IsEvent("Finalize") /\ ~fin /\ fin' = TRUE
                 /\ UNCHANGED <<written, pos, inv, layout, windows, sorted, drift>>

(* C15 (first half): the handles report a permutation of the positions *)
TraceHandles ==
  /\ IsEvent("Handles") /\ fin
  /\ LET p == Rec[l].pos n == Len(written) IN
       /\ Len(p) = n
       /\ {p[j] : j \in 1..n} = 0..(n - 1)
       /\ pos' = p
       \* the inverse permutation is supplied with the event and verified (computing it here is quadratic)
       /\ Len(Rec[l].inv) = n /\ (\A q \in 1..n : Rec[l].inv[q] \in 1..n /\ p[Rec[l].inv[q]] = q - 1) = TRUE
       /\ inv' = Rec[l].inv
       /\ drift' = drift + (IF sorted = <<>> /\ \E j \in 1..n : p[j] # j - 1 THEN 1 ELSE 0)
  /\ UNCHANGED <<written, layout, windows, sorted, fin>>

(* ---------------------------------------------------------------- layout sufficiency *)
Carries(e, p) == p.variant = "" \/ p.variant = e.variant
Val(e, p) == e.values[p.name]
FitsNatR(n, w) == n < PowR(w)
PropSufficient(p, e) ==
  LET v == Val(e, p) IN
  CASE p.kind = "uint" -> v.t = "u" /\ (IF p.hasDefault THEN v.d = p.default ELSE FitsUD(v.d, p.width))
    [] p.kind = "sint" -> v.t = "s" /\ (IF p.hasDefault THEN v.d = p.default ELSE FitsSD(v.d, p.width))
    [] p.kind = "content" -> v.t = "c"       \* d = pack id (2 bytes LE) \o content id (4 bytes LE)
                             /\ (IF p.hasDefault THEN SubSeq(v.d, 1, 2) = p.default
                                 ELSE FitsUD(SubSeq(v.d, 1, 2), p.packWidth))
                             /\ FitsUD(SubSeq(v.d, 3, 6), p.idWidth)
    [] p.kind = "array" -> v.t = "a" /\
         (IF p.hasDefault THEN TRUE      \* a default array is compared through Read / Dec
          ELSE /\ (p.lenWidth = 0 \/ FitsNatR(Len(v.d), p.lenWidth))
               /\ (Len(v.d) > p.prefix => p.idWidth > 0))
    [] OTHER -> FALSE

LayoutSufficient(L) ==
  /\ \A k \in 1..Len(L.props) : \A j \in 1..Len(written) :
       Carries(written[j], L.props[k]) => PropSufficient(L.props[k], written[j])
  \* every property written has a place in the layout
  /\ \A j \in 1..Len(written) : \A n \in DOMAIN written[j].values :
       \E k \in 1..Len(L.props) : L.props[k].name = n /\ Carries(written[j], L.props[k])
  \* variants padded to equal size, sizes add up
  /\ \A a, b \in 1..Len(L.variantSizes) : L.variantSizes[a] = L.variantSizes[b]
  /\ L.entrySize = L.commonSize + (IF Len(L.variantSizes) = 0 THEN 0 ELSE 1 + L.variantSizes[1])
  /\ L.count = Len(written)

TraceLayout ==
  /\ IsEvent("Layout") /\ fin
  /\ LayoutSufficient(Rec[l]) = TRUE     \* '= TRUE': evaluate as a value; TLC would otherwise branch on the disjunctions inside
  /\ layout' = <<Rec[l]>>
  /\ UNCHANGED <<written, pos, inv, windows, sorted, fin, drift>>

(* ---------------------------------------------------------------- windows and reads *)
TraceIndex ==
  /\ IsEvent("Index") /\ fin
  /\ Rec[l].res = "ok" /\ Rec[l].count = Rec[l].declCount /\ Rec[l].offset = Rec[l].declOffset
  /\ Rec[l].offset + Rec[l].count <= Len(written)
  /\ windows' = Append(windows, [name |-> Rec[l].name, offset |-> Rec[l].offset, count |-> Rec[l].count])
  /\ UNCHANGED <<written, pos, inv, layout, sorted, fin, drift>>

WindowOf(name) == LET k == CHOOSE k \in 1..Len(windows) : windows[k].name = name IN windows[k]

TraceRead ==
  /\ IsEvent("Read") /\ fin
  /\ \E k \in 1..Len(windows) : windows[k].name = Rec[l].index
  /\ LET w == WindowOf(Rec[l].index) r == Rec[l] IN
       (IF r.i < w.count
         THEN /\ r.res = "ok"
              /\ r.typed = "same"      \* the typed property builders (Property::as_builder) agree with the generic builder
              /\ LET e == written[inv[w.offset + r.i + 1]] IN
                   r.variant = e.variant /\ r.values = e.values
         ELSE r.res = "none") = TRUE
  /\ UNCHANGED <<written, pos, inv, layout, windows, sorted, fin, drift>>

(* C14: the independent decoder recovers the entry written at each position *)
TraceDec ==
  /\ IsEvent("Dec") /\ fin
  /\ Rec[l].p < Len(written)
  /\ LET e == written[inv[Rec[l].p + 1]] IN Rec[l].variant = e.variant /\ Rec[l].values = e.values
  /\ UNCHANGED <<written, pos, inv, layout, windows, sorted, fin, drift>>

TraceNext == TraceScn \/ TraceEntry \/ TraceEntries \/ TraceFinalize \/ TraceHandles \/ TraceLayout \/ TraceIndex
             \/ TraceRead \/ TraceDec

TraceSpec == TraceInit /\ [][TraceNext]_tvars

Done == (l = Len(Rec) + 1) => PrintT(<<"DRIFT", drift>>)

TraceAccepted ==
  LET d == TLCGet("stats").diameter IN
  IF d - 1 = Len(Rec) THEN TRUE
  ELSE /\ PrintT(<<"REJECTED", d, IF d <= Len(Rec) THEN Rec[d].ev ELSE "end">>)
       /\ FALSE
=============================================================================
