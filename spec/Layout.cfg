CONSTANTS
  Radix = 256
SPECIFICATION TraceSpec
INVARIANT Done
POSTCONDITION TraceAccepted
CHECK_DEADLOCK FALSE
