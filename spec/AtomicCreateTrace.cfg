SPECIFICATION TraceSpec
INVARIANT Done
POSTCONDITION TraceAccepted
CHECK_DEADLOCK FALSE
