\* array column: every set of <=3 byte strings of length <=3 over {0,1}
CONSTANTS
  Radix = 4
  NDigits = 3
  SignedRule = "minmax"
  ReaderRule = "marker"
  UVals <- Zero3
  SVals <- Zero3
  AVals <- ASmall
  YVals <- Zero3
  XVals <- Zero3
  VSet = {1}
  Prefix = 1
  StoreKind = "plain"
  MaxEntries = 3
SPECIFICATION Spec
INVARIANTS RoundTrip Sufficient VariantsEqualSize LayoutReparses StoreResolves
CHECK_DEADLOCK FALSE
