------------------------------ MODULE MC_Views ------------------------------
(* Views with a history of the operations applied, so that complete behaviours can be printed
   and replayed through the real API (bin/check.py scales positions by the content length). *)
EXTENDS Views, Json

CONSTANT MaxOps
VARIABLE hist
hvars == <<vars, hist>>

HInit == Init /\ hist = <<>>
HNext ==
  /\ Len(hist) < MaxOps
  /\ \E k \in 1..Len(views) :
       \/ \E off \in 0..N, size \in 0..N : Cut(k, off, size) /\ hist' = Append(hist, [op |-> "cut", v |-> k, a |-> off, n |-> size])
       \/ AsSlice(k) /\ hist' = Append(hist, [op |-> "as_slice", v |-> k, a |-> 0, n |-> 0])
       \/ ToRegion(k) /\ hist' = Append(hist, [op |-> "to_region", v |-> k, a |-> 0, n |-> 0])
       \/ ToStream(k) /\ hist' = Append(hist, [op |-> "stream", v |-> k, a |-> 0, n |-> 0])
       \/ IntoStream(k) /\ hist' = Append(hist, [op |-> "into_stream", v |-> k, a |-> 0, n |-> 0])
       \/ \E n \in ReadSizes : Read(k, n, Min(n, SizeLeft(views[k]))) /\ hist' = Append(hist, [op |-> "read", v |-> k, a |-> 0, n |-> n])
       \/ \E off \in 0..N, n \in ReadSizes : GetSlice(k, off, n) /\ hist' = Append(hist, [op |-> "get_slice", v |-> k, a |-> off, n |-> n])
HSpec == HInit /\ [][HNext]_hvars

Replay == (Len(hist) = MaxOps) => PrintT(<<"REPLAY", ToJson(hist)>>)
=============================================================================
