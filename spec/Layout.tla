------------------------------- MODULE Layout -------------------------------
(* The on-disk layout of format (0,2) as relations between decoded blocks (common/headers,
   common/{pack_info,pack_locator,content_info,check}.rs, bases/{block,write,parsing}.rs,
   bases/types/sized_offset.rs; spec/*.rst).  Property C14.

   Numeric decoding (endianness, CRC-32C parameters, BLAKE3, bit packing, compression streams)
   is done by the independent decoder tools/jbkdec.py, which shares no code with the library;
   this module states the structural relations its block map must satisfy:

     every pack : header CRC, version (0,2), last 64 bytes = reversed header, check block at
                  checkInfoPos, packSize = checkInfoPos + check block + 64, global hash matches
     every block: followed by a matching CRC (where the format has one), inside its pack,
                  no two blocks overlap
     pointers   : land on a block of the stated kind and size
     data blocks: immediately precede their tail
     arrays     : count x element size
     widths     : sufficient for every value they hold

   Policy level (drift only): the blocks tile the pack with no unused byte, widths are minimal. *)
EXTENDS Bytes, Sequences, FiniteSets, TLC, Json, IOUtils

Rec == ndJsonDeserialize(IOEnv.TRACE)
VARIABLES l, cur, blocks, lastEnd, packs, drift
  \* cur: the pack being described; blocks: set of <<kind, begin, size>> of that pack;
  \* packs: set of <<uuid, base, size>> seen in this file
tvars == <<l, cur, blocks, lastEnd, packs, drift>>
NoPack == [id |-> -1, base |-> 0, size |-> 0, kind |-> "", legacy |-> FALSE]
TraceInit == l = 1 /\ cur = NoPack /\ blocks = {} /\ lastEnd = 0 /\ packs = {} /\ drift = 0
IsEvent(e) == l <= Len(Rec) /\ Rec[l].ev = e /\ l' = l + 1
D(c) == IF c THEN 0 ELSE 1

PackOK(r) ==
  /\ r.headerCrc /\ r.major = 0 /\ r.minor = 2
  /\ r.tailMirror /\ r.checkOk
  /\ r.checkSize \in {5, 37}
  /\ (r.kind = "C") = (r.checkSize = 5)
  /\ (r.legacy \/ r.packSize = r.checkInfoPos + r.checkSize + 64)           \* spec/pack.rst
  /\ r.base + r.packSize <= r.fileSize
  /\ r.reservedZero

TraceFile == IsEvent("File") /\ packs' = {} /\ cur' = NoPack /\ blocks' = {} /\ lastEnd' = 0 /\ UNCHANGED drift

TracePack ==
  /\ IsEvent("Pack")
  /\ PackOK(Rec[l]) = TRUE
  /\ cur' = [id |-> Rec[l].id, base |-> Rec[l].base, size |-> Rec[l].packSize, kind |-> Rec[l].kind, legacy |-> Rec[l].legacy]
  /\ blocks' = {} /\ lastEnd' = Rec[l].base
  /\ packs' = packs \cup {<<Rec[l].uuid, Rec[l].base, Rec[l].packSize>>}
  /\ UNCHANGED drift

TraceBlock ==
  /\ IsEvent("Block")
  /\ LET r == Rec[l] IN
       /\ (/\ r.pack = cur.id
           /\ r.crc # "bad"
           /\ r.begin >= cur.base /\ r.end <= cur.base + cur.size + (IF cur.legacy THEN 5 ELSE 0)
           /\ r.begin >= lastEnd) = TRUE                            \* no overlap (blocks come in file order)
       /\ blocks' = blocks \cup {<<r.kind, r.begin, r.size>>}
       /\ lastEnd' = r.end
       /\ drift' = drift + D(r.begin = lastEnd)                     \* policy: no unused byte
  /\ UNCHANGED <<cur, packs>>

(* a pointer of the pack lands on a block of the stated kind and size *)
TracePtr ==
  /\ IsEvent("Ptr")
  /\ (Rec[l].pack = cur.id /\ <<Rec[l].kind, Rec[l].offset, Rec[l].size>> \in blocks) = TRUE
  /\ UNCHANGED <<cur, blocks, lastEnd, packs, drift>>

(* data immediately before its tail; widths sufficient *)
TraceData ==
  /\ IsEvent("Data")
  /\ LET r == Rec[l] IN
       (/\ r.pack = cur.id
        /\ r.dataEnd = r.tailPos
        /\ <<r.dataKind, r.dataBegin, r.dataSize>> \in blocks
        /\ <<r.tailKind, r.tailPos, r.tailSize>> \in blocks
        /\ (r.width > 0 => \A k \in 1..Len(r.values) : FitsU(r.values[k], r.width))) = TRUE
  /\ drift' = drift + D(Rec[l].width = 0 \/ Rec[l].widthMinimal)
  /\ UNCHANGED <<cur, blocks, lastEnd, packs>>

(* a locator of a container pack names a pack that is really there *)
TraceLocator ==
  /\ IsEvent("Locator")
  /\ (<<Rec[l].uuid, Rec[l].base, Rec[l].size>> \in packs) = TRUE
  /\ UNCHANGED <<cur, blocks, lastEnd, packs, drift>>

(* counts agree: arrays are count x element, pack infos end at the check block ... *)
TraceCounts == IsEvent("Counts") /\ (\A k \in 1..Len(Rec[l].eq) : Rec[l].eq[k][1] = Rec[l].eq[k][2]) = TRUE
               /\ UNCHANGED <<cur, blocks, lastEnd, packs, drift>>

(* the independent decoder recovered the logical content that was written; the current reader
   reads a reference container of the pinned version to its recorded logical content *)
TraceLogical == IsEvent("Logical") /\ Rec[l].diffs = 0 /\ UNCHANGED <<cur, blocks, lastEnd, packs, drift>>

(* application fields (free data of packs and indexes, index key): the decoder finds, and the reader
   returns, the bytes that were given *)
TraceFields == IsEvent("Fields") /\ Rec[l].ok /\ UNCHANGED <<cur, blocks, lastEnd, packs, drift>>

TraceNext == TraceFields \/ TraceFile \/ TracePack \/ TraceBlock \/ TracePtr \/ TraceData \/ TraceLocator \/ TraceCounts \/ TraceLogical
TraceSpec == TraceInit /\ [][TraceNext]_tvars
Done == (l = Len(Rec) + 1) => PrintT(<<"DRIFT", drift>>)
TraceAccepted ==
  LET d == TLCGet("stats").diameter IN
  IF d - 1 = Len(Rec) THEN TRUE
  ELSE /\ PrintT(<<"REJECTED", d, IF d <= Len(Rec) THEN Rec[d].ev ELSE "end">>)
       /\ FALSE
=============================================================================
