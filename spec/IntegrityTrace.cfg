CONSTANTS
  MaxDamage = 2
  Prop = "C05"
SPECIFICATION TraceSpec
INVARIANT Done
POSTCONDITION TraceAccepted
CHECK_DEADLOCK FALSE
