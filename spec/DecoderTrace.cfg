CONSTANTS
  CacheSlots = 40
SPECIFICATION TraceSpec
INVARIANT Done
POSTCONDITION TraceAccepted
CHECK_DEADLOCK FALSE
