CONSTANTS
  CacheSlots = 40
SPECIFICATION TraceSpec
POSTCONDITION TraceAccepted
CHECK_DEADLOCK FALSE
