CONSTANTS
  ContentPacks = {"c1", "c2", "c3"}
  Main = "c1"
  MaxOps = 99
SPECIFICATION TraceSpec
POSTCONDITION TraceAccepted
CHECK_DEADLOCK FALSE
