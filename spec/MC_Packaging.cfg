CONSTANTS
  ContentPacks = {"c1", "c2", "c3"}
  Main = "c1"
  LocatePolicy = "identity"
  MaxOps = 3
SPECIFICATION Spec
INVARIANTS SameLogicalContent IdentityIsUuid MissingIsReported PresentStillReads EntryHasManifest
CHECK_DEADLOCK FALSE
