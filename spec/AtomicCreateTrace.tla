-------------------------- MODULE AtomicCreateTrace --------------------------
(* Code -> spec for C09.  (1) the file-system calls of a complete creation, recorded by strace:
   a destination is never opened for writing or truncation, the entry point is renamed into
   place after every file it names.  (2) the state of the destination directory after the
   creator was killed or made to fail at an injected point (write-size limit at byte N, k-th
   system call): every destination is absent, the previous file, or a complete container that
   verifies (classified by really opening it), and a new entry point implies complete
   referenced files.  Policy level (drift): one temporary file per output, created with O_EXCL
   in the destination directory, renamed only after its last write. *)
EXTENDS Naturals, Sequences, FiniteSets, TLC, Json, IOUtils

Rec == ndJsonDeserialize(IOEnv.TRACE)
VARIABLES l, refs, dest, placed, temps, drift
tvars == <<l, refs, dest, placed, temps, drift>>
TraceInit == l = 1 /\ refs = {} /\ dest = {} /\ placed = {} /\ temps = {} /\ drift = 0
IsEvent(e) == l <= Len(Rec) /\ Rec[l].ev = e /\ l' = l + 1
D(c) == IF c THEN 0 ELSE 1

TraceRun ==
  /\ IsEvent("Run")
  /\ refs' = {Rec[l].refs[i] : i \in 1..Len(Rec[l].refs)} /\ dest' = {Rec[l].entry} \cup {Rec[l].refs[i] : i \in 1..Len(Rec[l].refs)}
  /\ placed' = {} /\ temps' = {} /\ UNCHANGED drift

TraceOpen ==
  /\ IsEvent("Open")
  /\ (Rec[l].role = "dest" => ~(Rec[l].write \/ Rec[l].trunc \/ Rec[l].creat)) = TRUE      \* DestAllOrNothing
  /\ temps' = IF Rec[l].role = "temp" THEN temps \cup {Rec[l].path} ELSE temps
  /\ drift' = drift + D(Rec[l].role = "temp" => (Rec[l].excl /\ Rec[l].inDestDir))
  /\ UNCHANGED <<refs, dest, placed>>

TraceWrite ==
  /\ IsEvent("Write")
  /\ (Rec[l].role # "dest") = TRUE
  /\ drift' = drift + D(Rec[l].path \notin placed)            \* no write after the rename
  /\ UNCHANGED <<refs, dest, placed, temps>>

TraceRename ==
  /\ IsEvent("Rename")
  /\ (Rec[l].toRole = "entry" => refs \subseteq placed) = TRUE                               \* EntryPointLast
  /\ placed' = placed \cup {Rec[l].to}
  /\ drift' = drift + D(Rec[l].from \in temps)
  /\ UNCHANGED <<refs, dest, temps>>

TraceAfter ==
  /\ IsEvent("After")
  /\ LET r == Rec[l] IN
       (/\ \A i \in 1..Len(r.classes) : r.classes[i] \in {"absent", "previous", "complete"}
        /\ (r.entryClass = "complete" => r.refsComplete)
        /\ (r.variant = "none" => dest \subseteq placed)) = TRUE        \* every output of a complete creation arrived by a rename
  /\ UNCHANGED <<refs, dest, placed, temps, drift>>

TraceNext == TraceRun \/ TraceOpen \/ TraceWrite \/ TraceRename \/ TraceAfter
TraceSpec == TraceInit /\ [][TraceNext]_tvars
Done == (l = Len(Rec) + 1) => PrintT(<<"DRIFT", drift>>)
TraceAccepted ==
  LET d == TLCGet("stats").diameter IN
  IF d - 1 = Len(Rec) THEN TRUE
  ELSE /\ PrintT(<<"REJECTED", d, IF d <= Len(Rec) THEN Rec[d].ev ELSE "end">>)
       /\ FALSE
=============================================================================
