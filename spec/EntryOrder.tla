---------------------------- MODULE EntryOrder ----------------------------
(* Ordering of sorted stores, lookup, and references between entries.
   (creator/directory_pack/{entry_store,value,value_store}.rs, bases/types/delayed.rs,
   reader/directory_pack/{range,raw_value,property_compare}.rs).  Properties C03 and C15.

   Three machines, selected by Mode:
     "order"  every small set of byte strings: the order the writer sorts by
              (inline prefix, value-store id of the rest, length) is the reader's
              lexicographic order on whole byte strings;
     "find"   the binary search of range.rs transcribed step by step (left, right, size,
              mid), on every non-decreasing sequence (strictly increasing, or with keys
              written twice when Dups), window and probe, together with the linear scan; and
              the acceptance test of the creator's sort loop (entry_store.rs finalize: re-sort
              until every adjacent pair compares `is_le`, give up after 50 passes) on the
              same sequences - EqualIsGreater = TRUE is the pinned comparison, which answers
              Greater for two entries with equal keys and so never accepts a store in which a
              key occurs twice;
     "refs"   entries that refer to each other: positions are assigned after the final
              sort and before columns are sized and written. *)
EXTENDS EntryStore, Json

CONSTANTS Mode,
          Alphabet, MaxLen, Prefixes, StoreKinds, MaxKeys,     \* "order"
          KeyDomain, MaxSeq, Dups, EqualIsGreater,             \* "find"
          NEntries, SizeBeforeAssign                           \* "refs"

(* ================================================================= order *)
RECURSIVE StringsOfLen(_)
StringsOfLen(n) == IF n = 0 THEN {<<>>} ELSE {Append(s, b) : s \in StringsOfLen(n - 1), b \in Alphabet}
Strings == UNION {StringsOfLen(n) : n \in 0..MaxLen}
KeySets == IF MaxKeys <= 2 THEN {{a, b} : a \in Strings, b \in Strings}
           ELSE {{a, b, c} : a \in Strings, b \in Strings, c \in Strings}

(* creator/directory_pack/value.rs Array::cmp : (data, value_id, size) *)
WriterLess(a, b, prefix, st) ==
  LET ha == ArrHead(a, prefix) hb == ArrHead(b, prefix)
      ia == StoreId(st, ArrRest(a, prefix)) ib == StoreId(st, ArrRest(b, prefix)) IN
  IF ha # hb THEN BLess(ha, hb)
  ELSE IF ia # ib THEN ia < ib
  ELSE Len(a) < Len(b)

(* reader/directory_pack/raw_value.rs Array::cmp : byte by byte, shorter first *)
ReaderLess(a, b) == BLess(a, b)

(* ================================================================= find *)
(* the comparator answers how the entry at absolute index i compares to the probe *)
Cmp(seq, i, probe) == IF seq[i + 1] < probe THEN "less" ELSE IF seq[i + 1] > probe THEN "greater" ELSE "equal"

(* functional transcription of RangeTrait::find (ordered): the list of probed absolute indices
   and the result (window-relative index or -1) *)
RECURSIVE BinSearch(_, _, _, _, _, _, _)
BinSearch(seq, off, probe, left, right, size, probes) ==
  IF left < right THEN
    LET mid == left + size \div 2
        c == Cmp(seq, off + mid, probe) IN
    IF c = "less" THEN BinSearch(seq, off, probe, mid + 1, right, right - (mid + 1), Append(probes, off + mid))
    ELSE IF c = "greater" THEN BinSearch(seq, off, probe, left, mid, mid - left, Append(probes, off + mid))
    ELSE [res |-> mid, probes |-> Append(probes, off + mid)]
  ELSE [res |-> -1, probes |-> probes]
RECURSIVE LinSearch(_, _, _, _, _, _)
LinSearch(seq, off, count, probe, i, probes) ==
  IF i >= count THEN [res |-> -1, probes |-> probes]
  ELSE IF Cmp(seq, off + i, probe) = "equal" THEN [res |-> i, probes |-> Append(probes, off + i)]
  ELSE LinSearch(seq, off, count, probe, i + 1, Append(probes, off + i))

VARIABLES m      \* the machine's state, a record whose shape depends on Mode
vars == <<m>>

RECURSIVE SortedSeqOf(_)
SortedSeqOf(S) == IF S = {} THEN <<>>
                  ELSE LET mn == CHOOSE x \in S : \A y \in S : x <= y IN <<mn>> \o SortedSeqOf(S \ {mn})
StrictSeqs == {SortedSeqOf(S) : S \in {T \in SUBSET KeyDomain : Cardinality(T) <= MaxSeq}}
(* non-decreasing sequences in which the keys of D occur twice *)
RECURSIVE Doubled(_, _)
Doubled(s, D) == IF s = <<>> THEN <<>>
                 ELSE (IF Head(s) \in D THEN <<Head(s), Head(s)>> ELSE <<Head(s)>>) \o Doubled(Tail(s), D)
SortedSeqs == IF Dups THEN {Doubled(SortedSeqOf(S), D) : S \in {T \in SUBSET KeyDomain : Cardinality(T) <= MaxSeq}, D \in SUBSET KeyDomain}
              ELSE StrictSeqs
(* creator/directory_pack/mod.rs FullEntryTrait::compare on one integer key *)
WriterEntryCmp(a, b) == IF a < b THEN "less" ELSE IF a > b THEN "greater" ELSE IF EqualIsGreater THEN "greater" ELSE "equal"
(* entry_store.rs finalize: the loop ends when every adjacent pair is `is_le` *)
SortLoopAccepts(s) == \A i \in 1..(Len(s) - 1) : WriterEntryCmp(s[i], s[i + 1]) \in {"less", "equal"}

InitOrder == \E S \in KeySets, p \in Prefixes, k \in StoreKinds :
               m = [mode |-> "order", keys |-> S, prefix |-> p,
                    store |-> StoreOf(k, {ArrRest(a, p) : a \in S})]
InitFind == \E s \in SortedSeqs : \E off \in 0..Len(s) : \E count \in 0..(Len(s) - off) : \E probe \in KeyDomain :
              m = [mode |-> "find", seq |-> s, off |-> off, count |-> count, probe |-> probe,
                   left |-> 0, right |-> count, size |-> count, pc |-> "loop", res |-> -2, steps |-> 0]
(* one iteration of the loop in range.rs *)
StepFind ==
  /\ m.mode = "find" /\ m.pc = "loop"
  /\ IF m.left < m.right
       THEN LET mid == m.left + m.size \div 2
                c == Cmp(m.seq, m.off + mid, m.probe) IN
            IF c = "less" THEN m' = [m EXCEPT !.left = mid + 1, !.size = m.right - (mid + 1), !.steps = @ + 1]
            ELSE IF c = "greater" THEN m' = [m EXCEPT !.right = mid, !.size = mid - m.left, !.steps = @ + 1]
            ELSE m' = [m EXCEPT !.res = mid, !.pc = "done", !.steps = @ + 1]
       ELSE m' = [m EXCEPT !.res = -1, !.pc = "done"]

(* ================================================================= refs *)
(* entries 1..NEntries with distinct keys key[i]; ref[i] = the entry i refers to.
   pc: "added" -> "sorted" -> "assigned" -> "sized" -> "written"
   (SizeBeforeAssign swaps the last-but-one steps: a defect the invariant must expose) *)
Perms == {f \in [1..NEntries -> 1..NEntries] : \A i, j \in 1..NEntries : i # j => f[i] # f[j]}
InitRefs == \E key \in Perms, ref \in [1..NEntries -> 1..NEntries], srt \in BOOLEAN :
              m = [mode |-> "refs", key |-> key, ref |-> ref, sorted |-> srt,
                   pos |-> [i \in 1..NEntries |-> i - 1],      \* set_idx at add_entry: insertion index
                   width |-> 0, stored |-> [i \in 1..NEntries |-> -1], pc |-> "added"]
FinalPos(key, srt) == [i \in 1..NEntries |-> IF srt THEN Cardinality({j \in 1..NEntries : key[j] < key[i]}) ELSE i - 1]
MaxOf(S) == CHOOSE x \in S : \A y \in S : y <= x
StepRefs ==
  /\ m.mode = "refs"
  /\ \/ /\ m.pc = "added"
        /\ m' = [m EXCEPT !.pc = IF SizeBeforeAssign THEN "presized" ELSE "sorted"]
     \/ /\ m.pc = "presized"        \* defect: column sized with the positions known so far
        /\ m' = [m EXCEPT !.width = NeededNat(MaxOf({m.pos[m.ref[i]] : i \in 1..NEntries})), !.pc = "sorted"]
     \/ /\ m.pc = "sorted"          \* sort, then set_entry_idx: handles now report final positions
        /\ m' = [m EXCEPT !.pos = FinalPos(m.key, m.sorted), !.pc = "assigned"]
     \/ /\ m.pc = "assigned"        \* schema.process: Word::get() reads the positions, width from the maximum
        /\ m' = [m EXCEPT !.width = IF SizeBeforeAssign THEN m.width
                                     ELSE NeededNat(MaxOf({m.pos[m.ref[i]] : i \in 1..NEntries})),
                          !.pc = "sized"]
     \/ /\ m.pc = "sized"           \* serialize_entry: Word::get() again, truncated to the column width
        /\ m' = [m EXCEPT !.stored = [i \in 1..NEntries |-> m.pos[m.ref[i]] % PowR(m.width)], !.pc = "written"]

Init == CASE Mode = "order" -> InitOrder [] Mode = "find" -> InitFind [] Mode = "refs" -> InitRefs
Next == StepFind \/ StepRefs
Spec == Init /\ [][Next]_vars
FairSpec == Spec /\ WF_vars(Next)

Replay == (m.mode = "order" \/ (m.mode = "find" /\ m.pc = "loop" /\ m.steps = 0) \/ (m.mode = "refs" /\ m.pc = "added"))
          => PrintT(<<"REPLAY", ToJson(m)>>)

(* ================================================================= properties *)
(* C03 *)
WriterOrderIsReaderOrder ==
  m.mode = "order" => \A a, b \in m.keys : WriterLess(a, b, m.prefix, m.store) <=> ReaderLess(a, b)
InWindow(i) == i >= 0 /\ i < m.count
FindSound == (m.mode = "find" /\ m.pc = "done" /\ m.res >= 0) => InWindow(m.res) /\ m.seq[m.off + m.res + 1] = m.probe
FindComplete == (m.mode = "find" /\ m.pc = "done" /\ m.res = -1) => \A i \in 0..(m.count - 1) : m.seq[m.off + i + 1] # m.probe
(* the loop invariant quoted in range.rs: the key, if present, lies in [left, right) *)
LoopInv == (m.mode = "find" /\ m.pc = "loop") =>
  /\ m.left <= m.right /\ m.right <= m.count /\ m.size = m.right - m.left
  /\ \A i \in 0..(m.count - 1) : m.seq[m.off + i + 1] = m.probe => (i >= m.left /\ i < m.right)
(* the two modes find a key or miss it together; they name the same entry when the key occurs once
   (with a key written twice the scan returns the first occurrence, the bisection either) *)
Occurrences == {i \in 0..(m.count - 1) : m.seq[m.off + i + 1] = m.probe}
ModesAgree == (m.mode = "find" /\ m.pc = "done") =>
  LET lin == LinSearch(m.seq, m.off, m.count, m.probe, 0, <<>>).res IN
  /\ (lin >= 0) <=> (m.res >= 0)
  /\ Cardinality(Occurrences) <= 1 => lin = m.res
  /\ lin >= 0 => lin \in Occurrences
  /\ BinSearch(m.seq, m.off, m.probe, 0, m.count, m.count, <<>>).res = m.res
(* every non-decreasing store is one the creator's sort loop accepts (else: 'Cannot sort entry store') *)
SortedIsAccepted == m.mode = "find" => SortLoopAccepts(m.seq)
FindTerminates == (m.mode = "find") => <>(m.pc = "done")
(* logarithmic: never more probes than the window has entries, + 1 *)
FindBounded == m.mode = "find" => m.steps <= m.count + 1
(* C15 *)
RefsAreFinal == (m.mode = "refs" /\ m.pc = "written") =>
  \A i \in 1..NEntries : m.stored[i] = FinalPos(m.key, m.sorted)[m.ref[i]]
HandlesAreFinal == (m.mode = "refs" /\ m.pc \in {"assigned", "sized", "written"}) => m.pos = FinalPos(m.key, m.sorted)
=============================================================================
