---------------------------- MODULE ContentPack ----------------------------
(* Content insertion and retrieval (creator/content_pack/{creator,cluster,mod}.rs,
   reader/content_pack/{mod,cluster}.rs).  Properties C01 and C16.

   PROPERTY LEVEL.  Add / AddDup take the *observed* placement (cluster, blob) and the kind
   of cluster the content ended in as parameters and constrain them only by what the format
   and the properties demand: the blob index is the next free one of that cluster and fits 12
   bits, the cluster id is an existing one of the same kind or the next fresh id and fits 20
   bits.  Trace validation is against these actions.

   POLICY LEVEL.  PolicyAdd computes the choice the code makes today (two open clusters, one
   per kind; a cluster is full at MaxBlobs blobs, a compressed one also when the next content
   would push it over ClusterSize) and calls the property-level action with it, so
   PolicyNext => Next by construction; PolicyAllowed says the code's choice is always one the
   property level admits.  The exhaustive configuration explores PolicyNext. *)
EXTENDS Bytes, TLC

CONSTANTS
  MaxBlobs,         \* policy: blobs per cluster (code: 0xFFF)
  BlobIdxLimit,     \* format: blob index < 2^12
  ClusterIdxLimit,  \* format: cluster id < 2^20
  ClusterSize,      \* policy: compressed cluster split size (code: 4 MiB)
  CompressingSet,   \* subset of BOOLEAN: values of `compressing` the initial state may take
  CachedSet,        \* subset of BOOLEAN: values of `cached`
  CheckHint,        \* BOOLEAN: enforce C16 (HintRespected / DedupShares) in the guards
  TrackHistory,     \* BOOLEAN: keep infos / ret / ins (needed by the invariants of the exhaustive
                    \*   configuration; dead weight - O(n) copies per step - in trace validation)
  WidthFromMax      \* BOOLEAN: tail width from max(raw,data) (repaired) or from data only (F1)

VARIABLES
  compressing,  \* the pack's compression is not None
  cached,       \* insertions go through the deduplicating adder
  phase,        \* "open" | "final"
  stored,       \* Seq of [cid, size, kind, hint] one per stored content, index = content id + 1
                \*   (hint = the hint of the insertion that stored it)
  infos,        \* Seq of <<cluster, blob>>      same indexing
  ret,          \* Seq of content ids returned, one per insertion
  ins,          \* Seq of [cid, size, hint]      one per insertion
  clusters,     \* Seq of [kind, blobs, dataSize] index = cluster id + 1
  open,         \* policy state: [raw |-> cluster id or -1, comp |-> ...]
  drift         \* number of insertions whose observed placement differs from the policy's

vars == <<compressing, cached, phase, stored, infos, ret, ins, clusters, open, drift>>

Kinds == {"raw", "comp"}
Hints == {"yes", "no", "detect"}
NoCluster == -1

Init ==
  /\ compressing \in CompressingSet /\ cached \in CachedSet
  /\ phase = "open"
  /\ stored = <<>> /\ infos = <<>> /\ ret = <<>> /\ ins = <<>>
  /\ clusters = <<>>
  /\ open = [raw |-> NoCluster, comp |-> NoCluster]
  /\ drift = 0

(* ------------------------------------------------------------------ C16 *)
HintAllows(hint, kind) ==
  /\ (hint = "no" \/ ~compressing) => kind = "raw"
  /\ (hint = "yes" /\ compressing) => kind = "comp"

(* ------------------------------------------------------------------ policy *)
IsFull(c, size) ==
  LET cl == clusters[c + 1] IN
  \/ cl.blobs = MaxBlobs
  \/ (cl.kind = "comp" /\ cl.blobs > 0 /\ cl.dataSize + size > ClusterSize)

PolicyPlace(kind, size) ==
  LET o == open[kind] IN
  IF o # NoCluster /\ o < Len(clusters) /\ clusters[o + 1].kind = kind /\ ~IsFull(o, size)
    THEN <<o, clusters[o + 1].blobs>>
    ELSE <<Len(clusters), 0>>

(* ------------------------------------------------------------------ property-level actions *)
PlacementOK(kind, c, b) ==
  /\ c \in 0..Len(clusters) /\ c < ClusterIdxLimit
  /\ b < BlobIdxLimit
  /\ IF c = Len(clusters)
       THEN b = 0
       ELSE clusters[c + 1].kind = kind /\ clusters[c + 1].blobs = b

Add(cid, size, hint, kind, c, b, idx) ==
  /\ phase = "open"
  /\ PlacementOK(kind, c, b)
  /\ CheckHint => HintAllows(hint, kind)
  /\ CheckHint /\ cached => \A k \in 1..Len(stored) : ~(stored[k].cid = cid /\ stored[k].size = size)
  /\ idx = Len(stored)                       \* the address returned is the new content's
  /\ UNCHANGED <<compressing, cached, phase>>
  /\ stored' = Append(stored, [cid |-> cid, size |-> size, kind |-> kind, hint |-> hint])
  /\ infos' = IF TrackHistory THEN Append(infos, <<c, b>>) ELSE infos
  /\ ret' = IF TrackHistory THEN Append(ret, idx) ELSE ret
  /\ ins' = IF TrackHistory THEN Append(ins, [cid |-> cid, size |-> size, hint |-> hint]) ELSE ins
  /\ clusters' = IF c = Len(clusters)
                   THEN Append(clusters, [kind |-> kind, blobs |-> 1, dataSize |-> size])
                   ELSE [clusters EXCEPT ![c + 1] = [@ EXCEPT !.blobs = @ + 1, !.dataSize = @ + size]]
  /\ LET pp == PolicyPlace(kind, size) IN
       /\ drift' = drift + (IF pp = <<c, b>> THEN 0 ELSE 1)
       /\ open' = [open EXCEPT ![kind] = pp[1]]

(* the deduplicating adder answers with the address of an identical content stored before *)
AddDup(cid, size, hint, idx) ==
  /\ phase = "open"
  /\ cached
  /\ idx + 1 \in 1..Len(stored)
  /\ stored[idx + 1].cid = cid /\ stored[idx + 1].size = size
  /\ ret' = IF TrackHistory THEN Append(ret, idx) ELSE ret
  /\ ins' = IF TrackHistory THEN Append(ins, [cid |-> cid, size |-> size, hint |-> hint]) ELSE ins
  /\ UNCHANGED <<compressing, cached, phase, stored, infos, clusters, open, drift>>

Finalize ==
  /\ phase = "open"
  /\ phase' = "final"
  /\ UNCHANGED <<compressing, cached, stored, infos, ret, ins, clusters, open, drift>>

(* ------------------------------------------------------------------ what is written *)
(* a cluster tail as the independent decoder reports it *)
TailWidthPolicy(dataSize, rawSize) ==
  IF WidthFromMax THEN NeededBytes(Max(dataSize, rawSize)) ELSE NeededBytes(dataSize)

ClusterTailOK(id, compressed, blobs, dataSize, rawSize, width) ==
  /\ id + 1 \in 1..Len(clusters)
  /\ LET cl == clusters[id + 1] IN
       /\ compressed = (cl.kind = "comp")
       /\ blobs = cl.blobs
       /\ dataSize = cl.dataSize
       /\ ~compressed => rawSize = dataSize
       /\ FitsU(dataSize, width) /\ FitsU(rawSize, width)     \* TailRepresentable

(* ------------------------------------------------------------------ reader *)
CountIs(n) == n = Len(stored)
GetOK(idx, res, cid) ==
  IF idx < Len(stored)
    THEN res = "match" /\ cid = stored[idx + 1].cid
    ELSE res = "none"

(* ------------------------------------------------------------------ policy-level next *)
Decisions(hint) ==
  IF ~compressing \/ hint = "no" THEN {"raw"}
  ELSE IF hint = "yes" THEN {"comp"}
  ELSE Kinds           \* detect: entropy decides; both outcomes are explored

PolicyAdd(cid, size, hint, kind) ==
  LET pp == PolicyPlace(kind, size) IN
  IF cached /\ \E k \in 1..Len(stored) : stored[k].cid = cid /\ stored[k].size = size
    THEN AddDup(cid, size, hint, (CHOOSE k \in 1..Len(stored) : stored[k].cid = cid /\ stored[k].size = size) - 1)
    ELSE Add(cid, size, hint, kind, pp[1], pp[2], Len(stored))

(* the code's choice is always admitted by the property level (refinement obligation) *)
PolicyAllowed ==
  phase = "open" =>
    \A kind \in Kinds : \A size \in 0..(ClusterSize + 1) :
      LET pp == PolicyPlace(kind, size) IN
      (pp[1] < ClusterIdxLimit) => PlacementOK(kind, pp[1], pp[2])

(* ------------------------------------------------------------------ invariants (C01, C16) *)
TypeOK ==
  /\ phase \in {"open", "final"}
  /\ Len(stored) = Len(infos)
  /\ Len(ret) = Len(ins)
  /\ \A i \in 1..Len(clusters) : clusters[i].kind \in Kinds /\ clusters[i].blobs >= 1

BlobsOf(c) == {infos[i][2] : i \in {j \in 1..Len(infos) : infos[j][1] = c}}

AddrInjective == \A i, j \in 1..Len(infos) : i # j => infos[i] # infos[j]
BlobsDense == \A c \in 0..(Len(clusters) - 1) : BlobsOf(c) = 0..(clusters[c + 1].blobs - 1)
BlobLimit == \A c \in 1..Len(clusters) : clusters[c].blobs <= BlobIdxLimit
ClusterIdDense == \A i \in 1..Len(infos) : infos[i][1] < Len(clusters)
KindConsistent == \A i \in 1..Len(infos) : clusters[infos[i][1] + 1].kind = stored[i].kind
RECURSIVE SumSizes(_, _)
SumSizes(c, i) == IF i = 0 THEN 0
                  ELSE (IF infos[i][1] = c THEN stored[i].size ELSE 0) + SumSizes(c, i - 1)
DataSizeExact == \A c \in 0..(Len(clusters) - 1) : clusters[c + 1].dataSize = SumSizes(c, Len(infos))
(* every insertion got an address that holds its content *)
AddrResolves == \A i \in 1..Len(ret) :
  /\ ret[i] + 1 \in 1..Len(stored)
  /\ stored[ret[i] + 1].cid = ins[i].cid /\ stored[ret[i] + 1].size = ins[i].size
AddrDistinctUnlessDedup == ~cached => \A i, j \in 1..Len(ret) : i # j => ret[i] # ret[j]
CountExact == ~cached => Len(stored) = Len(ins)
(* policy: a compressed cluster exceeds ClusterSize only with a single blob *)
CompSizeRule == \A c \in 1..Len(clusters) :
  (clusters[c].kind = "comp" /\ clusters[c].blobs > 1) => clusters[c].dataSize <= ClusterSize
(* C16 *)
(* the hint of the insertion that stored a content decides its cluster kind; an insertion
   answered by the deduplicating adder with an existing address stores nothing *)
HintRespected == \A k \in 1..Len(stored) : HintAllows(stored[k].hint, stored[k].kind)
DedupShares == cached => \A i, j \in 1..Len(stored) :
  (i # j) => ~(stored[i].cid = stored[j].cid /\ stored[i].size = stored[j].size)
(* the tail of every cluster is representable for every raw size a compressor may produce:
   with the code's width rule this fails (F1), with WidthFromMax it holds *)
TailRepresentable(overhead) ==
  phase = "final" => \A c \in 1..Len(clusters) :
    LET ds == clusters[c].dataSize IN
    \A rs \in (IF clusters[c].kind = "comp" THEN 1..(ds + overhead) ELSE {ds}) :
      LET w == TailWidthPolicy(ds, rs) IN FitsU(ds, w) /\ FitsU(rs, w)
=============================================================================
