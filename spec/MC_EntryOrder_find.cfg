CONSTANTS
  Radix = 4
  NDigits = 3
  SignedRule = "minmax"
  Mode = "find"
  Alphabet = {0}
  MaxLen = 0
  Prefixes = {0}
  StoreKinds = {"plain"}
  MaxKeys = 1
  KeyDomain = {0, 1, 2, 3, 4, 5, 6, 7, 8}
  MaxSeq = 7
  NEntries = 1
  SizeBeforeAssign = FALSE
SPECIFICATION FairSpec
INVARIANTS FindSound FindComplete LoopInv ModesAgree FindBounded
PROPERTIES FindTerminates
CHECK_DEADLOCK FALSE
