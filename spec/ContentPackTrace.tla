------------------------- MODULE ContentPackTrace -------------------------
(* Code -> spec: validates what the real creator and reader did (harness events, annotated
   with the placement found by the independent decoder) against the property-level actions
   of ContentPack with the implementation's constants.  One trace file holds many scenarios;
   a "New" event starts a fresh pack.  TRACE = path of the NDJSON file. *)
EXTENDS ContentPack, Json, IOUtils

Rec == ndJsonDeserialize(IOEnv.TRACE)

VARIABLE l
tvars == <<vars, l>>

TraceInit == Init /\ l = 1

IsEvent(e) == l <= Len(Rec) /\ Rec[l].ev = e /\ l' = l + 1

TraceNew ==
  /\ IsEvent("New")
  /\ compressing' = Rec[l].compressing /\ cached' = Rec[l].cached
  /\ phase' = "open"
  /\ stored' = <<>> /\ infos' = <<>> /\ ret' = <<>> /\ ins' = <<>> /\ clusters' = <<>>
  /\ open' = [raw |-> NoCluster, comp |-> NoCluster]
  /\ UNCHANGED drift

TraceAdd ==
  /\ IsEvent("Add")
  /\ LET r == Rec[l] IN
       IF r.dup
         THEN AddDup(r.cid, r.size, r.hint, r.idx)
         ELSE Add(r.cid, r.size, r.hint, r.kind, r.cluster, r.blob, r.idx)

TraceFinalize == IsEvent("Finalize") /\ Finalize

TraceCluster ==
  /\ IsEvent("Cluster")
  /\ phase = "final"
  /\ LET r == Rec[l] IN ClusterTailOK(r.id, r.compressed, r.blobs, r.dataSize, r.rawSize, r.width)
  /\ UNCHANGED vars

TraceClusterCount ==
  /\ IsEvent("ClusterCount")
  /\ phase = "final" /\ Rec[l].n = Len(clusters)
  /\ UNCHANGED vars

TraceCount == IsEvent("Count") /\ phase = "final" /\ CountIs(Rec[l].n) /\ UNCHANGED vars

TraceGet ==
  /\ IsEvent("Get")
  /\ phase = "final"
  /\ GetOK(Rec[l].idx, Rec[l].res, Rec[l].cid)
  /\ UNCHANGED vars

(* C16: the independent decoder found the cluster's bytes to be the verbatim concatenation of
   its contents (raw) or a stream of the pack's algorithm decoding to it (compressed) *)
TraceVerbatim == IsEvent("Verbatim") /\ Rec[l].ok /\ Rec[l].algoOk /\ UNCHANGED vars

TraceNext == TraceVerbatim \/ TraceNew \/ TraceAdd \/ TraceFinalize \/ TraceCluster \/ TraceClusterCount
             \/ TraceCount \/ TraceGet

TraceSpec == TraceInit /\ [][TraceNext]_tvars

(* cheap O(1) invariants only: the quadratic ones are discharged by MC_ContentPack from the
   same guards *)
TraceInv == Len(ret) = Len(ins) /\ Len(infos) <= Len(stored)

Done == (l = Len(Rec) + 1) => PrintT(<<"DRIFT", drift>>)

TraceAccepted ==
  LET d == TLCGet("stats").diameter IN
  IF d - 1 = Len(Rec) THEN TRUE
  ELSE /\ PrintT(<<"REJECTED", d, IF d <= Len(Rec) THEN ToJson(Rec[d]) ELSE "end">>)
       /\ FALSE
=============================================================================
