CONSTANTS
  N = 1000000000
  MaxViews = 1000
  MaxReads = 100000
  ReadSizes = {0}
SPECIFICATION TraceSpec
INVARIANTS Nested Sizes
POSTCONDITION TraceAccepted
CHECK_DEADLOCK FALSE
