\* C01 configuration (CheckHint FALSE); bin/check.py derives the C16 one (CheckHint TRUE)
CONSTANTS
  Radix = 256
  MaxBlobs = 4095
  BlobIdxLimit = 4096
  ClusterIdxLimit = 1048576
  ClusterSize = 4194304
  CompressingSet = {TRUE, FALSE}
  CachedSet = {FALSE}
  CheckHint = FALSE
  WidthFromMax = TRUE
  TrackHistory = FALSE
SPECIFICATION TraceSpec
INVARIANTS TraceInv Done
POSTCONDITION TraceAccepted
CHECK_DEADLOCK FALSE
