-------------------------------- MODULE Views --------------------------------
(* The views of a stored content (reader/byte_{region,slice,stream}.rs, bases/reader.rs,
   bases/types/range.rs).  Property C13.

   A view denotes a range [b, e) of the underlying content (positions relative to the content's
   first byte; the content itself sits at a non-zero offset of its source) and, for streams, a
   cursor c.  Every operation of the public API is an action that derives a new view (or moves
   a stream's cursor) and fixes what the API must report: the bytes (as a range), size(),
   offset(), size_left(). *)
EXTENDS Naturals, Sequences, FiniteSets, TLC

CONSTANTS N,         \* length of the content
          MaxViews,  \* bound on the number of views per behaviour
          MaxReads,  \* bound on the number of reads per behaviour
          ReadSizes  \* read sizes tried

VARIABLES views,   \* Seq of [kind, b, e, c, parent]
          reads,   \* number of reads done
          last     \* observation produced by the last action (what the API returned)
vars == <<views, reads, last>>

Region(b, e, p) == [kind |-> "region", b |-> b, e |-> e, c |-> b, parent |-> p]
Slice(b, e, p) == [kind |-> "slice", b |-> b, e |-> e, c |-> b, parent |-> p]
Stream(b, e, c, p) == [kind |-> "stream", b |-> b, e |-> e, c |-> c, parent |-> p]
NoObs == [op |-> "none", from |-> 0, to |-> 0]

Init == views = <<Region(0, N, 0)>> /\ reads = 0 /\ last = NoObs

Min(a, b) == IF a <= b THEN a ELSE b
Size(v) == v.e - v.b
Offset(v) == v.c - v.b
SizeLeft(v) == v.e - v.c

New(v, obs) == /\ Len(views) < MaxViews /\ views' = Append(views, v) /\ last' = obs /\ UNCHANGED reads

(* ByteRegion::cut / ByteSlice::cut : relative to the view, must stay inside it *)
Cut(k, off, size) ==
  /\ views[k].kind \in {"region", "slice"}
  /\ off + size <= Size(views[k])
  /\ New(Slice(views[k].b + off, views[k].b + off + size, k), [op |-> "cut", from |-> views[k].b + off, to |-> views[k].b + off + size])
(* ByteRegion::as_slice *)
AsSlice(k) == /\ views[k].kind = "region"
              /\ New(Slice(views[k].b, views[k].e, k), [op |-> "as_slice", from |-> views[k].b, to |-> views[k].e])
(* From<ByteSlice> for ByteRegion *)
ToRegion(k) == /\ views[k].kind = "slice"
               /\ New(Region(views[k].b, views[k].e, k), [op |-> "to_region", from |-> views[k].b, to |-> views[k].e])
(* ByteRegion::stream / ByteSlice::stream : cursor at the view's beginning *)
ToStream(k) == /\ views[k].kind \in {"region", "slice"}
               /\ New(Stream(views[k].b, views[k].e, views[k].b, k), [op |-> "stream", from |-> views[k].b, to |-> views[k].e])
(* From<ByteRegion> for ByteStream : the same denotation as ByteRegion::stream *)
IntoStream(k) == /\ views[k].kind = "region"
                 /\ New(Stream(views[k].b, views[k].e, views[k].b, k), [op |-> "into_stream", from |-> views[k].b, to |-> views[k].e])
(* Read::read(buf of n) : returns `got` bytes [c, c+got) and advances the cursor; as std::io::Read
   allows, got may be smaller than min(n, left) but not zero unless that is *)
Read(k, n, got) ==
  /\ views[k].kind = "stream" /\ reads < MaxReads
  /\ got <= Min(n, SizeLeft(views[k]))
  /\ (Min(n, SizeLeft(views[k])) > 0) => got > 0
  /\ views' = [views EXCEPT ![k].c = @ + got]
  /\ last' = [op |-> "read", from |-> views[k].c, to |-> views[k].c + got]
  /\ reads' = reads + 1
(* Read::read_exact(buf of n) : all n bytes or an error, never a part (n <= what is left: the scenarios ask for no more) *)
ReadExact(k, n, got) == n <= SizeLeft(views[k]) /\ got = n /\ Read(k, n, got)
(* Read::read_to_end(vec) : everything that is left is *appended* to vec, what vec held before is kept *)
ReadToEnd(k, got) == got = SizeLeft(views[k]) /\ Read(k, got, got)
(* get_slice(off, n) on a region or slice *)
GetSlice(k, off, n) ==
  /\ views[k].kind \in {"region", "slice"} /\ reads < MaxReads
  /\ off + n <= Size(views[k])
  /\ last' = [op |-> "get_slice", from |-> views[k].b + off, to |-> views[k].b + off + n]
  /\ reads' = reads + 1 /\ UNCHANGED views

Next == \E k \in 1..Len(views) :
          \/ \E off \in 0..N, size \in 0..N : Cut(k, off, size)
          \/ AsSlice(k) \/ ToRegion(k) \/ ToStream(k) \/ IntoStream(k)
          \/ \E n \in ReadSizes : \E got \in 0..n : Read(k, n, got)
          \/ \E n \in ReadSizes : ReadExact(k, n, n)
          \/ ReadToEnd(k, SizeLeft(views[k]))
          \/ \E off \in 0..N, n \in ReadSizes : GetSlice(k, off, n)
Spec == Init /\ [][Next]_vars

(* ------------------------------------------------------------------ properties *)
Root(k) == views[k].parent
Nested == \A k \in 2..Len(views) : views[k].b >= views[Root(k)].b /\ views[k].e <= views[Root(k)].e
Sizes == \A k \in 1..Len(views) :
           /\ views[k].b <= views[k].c /\ views[k].c <= views[k].e /\ views[k].e <= N
           /\ Offset(views[k]) + SizeLeft(views[k]) = Size(views[k])
(* conversions keep the denotation; a fresh stream starts at the beginning of its view *)
ConversionsAgree == \A k \in 2..Len(views) :
  (last.op \in {"as_slice", "to_region", "stream", "into_stream"} /\ k = Len(views)) =>
     /\ views[k].b = views[Root(k)].b /\ views[k].e = views[Root(k)].e
     /\ views[k].c = views[k].b
(* whatever is returned lies inside the view it was taken from *)
ObsInside == last.op # "none" => last.from <= last.to /\ last.to <= N
(* reads of one stream tile its view: each read starts where the previous one ended *)
ReadsTile == \A k \in 1..Len(views) : views[k].kind = "stream" => views[k].c >= views[k].b
=============================================================================
