----------------------------- MODULE MC_Bytes -----------------------------
(* Exhaustive check (by enumeration in ASSUME) of the lemmas the other modules rely on. *)
EXTENDS Bytes, TLC

CONSTANT Bound   \* values 0..Bound-1 and -Bound..Bound-1 are enumerated

L1 == \A v \in 0..(Bound - 1) : TruncU(v, NeededBytes(v)) = v
L2 == \A v \in 0..(Bound - 2) : NeededBytes(v) <= NeededBytes(v + 1)
L3 == \A v \in (-3)..(Bound - 1) : \A w \in 1..4 : FitsU(v, w) <=> (v >= 0 /\ v < Pow(Radix, w))
L4 == \A v \in (-Bound)..(Bound - 1) : TruncS(v, SNeededBytes(v)) = v
L5 == \A v \in (-Bound)..(Bound - 1) : \A w \in 1..4 : FitsS(v, w) <=> TruncS(v, w) = v
(* the root of finding F2: the unsigned-magnitude width is too small exactly on the sign bit *)
AbsV(v) == IF v < 0 THEN -v ELSE v
L6 == \A v \in 0..(Bound - 1) :
        (SNeededBytes(v) > NeededBytes(v)) <=> (v >= Pow(Radix, NeededBytes(v)) \div 2)
(* a width sufficient for the minimum and the maximum of a column is sufficient for all of it *)
L7 == \A lo \in (-Bound)..(Bound - 1) : \A hi \in lo..(Bound - 1) :
        LET w == Max(SNeededBytes(lo), SNeededBytes(hi))
        IN \A v \in lo..hi : FitsS(v, w)

ASSUME PrintT(<<"L1", L1>>) /\ L1
ASSUME PrintT(<<"L2", L2>>) /\ L2
ASSUME PrintT(<<"L3", L3>>) /\ L3
ASSUME PrintT(<<"L4", L4>>) /\ L4
ASSUME PrintT(<<"L5", L5>>) /\ L5
ASSUME PrintT(<<"L6", L6>>) /\ L6
ASSUME PrintT(<<"L7", L7>>) /\ L7

VARIABLE x
Init == x = 0
Next == UNCHANGED x
Spec == Init /\ [][Next]_x
=============================================================================
