--------------------------- MODULE DecoderProofs ---------------------------
(* Machine-checked proof (TLAPS) that the safety part of C07's protocol holds for ANY number of
   readers, chunks and requests, and whatever the notification discipline: the two invariants
   TLC checks on small instances (LengthsOrdered, ReadsBelowWritten) follow from an inductive
   invariant.  The only assumption on the constants is the order of the two decoder steps
   (bytes are written before their length is published). *)
EXTENDS Decoder, TLAPS

ASSUME ConstAssump == /\ Total \in Nat /\ MaxReq \in Nat
                      /\ PublishFirst = FALSE
                      /\ MayFail \in BOOLEAN /\ NotifyAll \in BOOLEAN /\ Locked \in BOOLEAN /\ ReportFailure \in BOOLEAN

States == {"idle", "check", "blocked", "toblock", "ready", "sliced", "error", "done"}
TypeOK == /\ written \in Nat /\ published \in Nat
          /\ rpc \in [Readers -> States]
          /\ want \in [Readers -> Nat] /\ got \in [Readers -> Nat] /\ nreq \in [Readers -> Nat]

Inv == /\ TypeOK
       /\ published <= written /\ written <= Total
       /\ \A r \in Readers : rpc[r] \in {"ready", "sliced"} => want[r] <= published
       /\ \A r \in Readers : rpc[r] = "sliced" => (want[r] <= got[r] /\ got[r] <= published)

LEMMA WakeType == ASSUME TypeOK, NEW S \in SUBSET Readers PROVE Wake(S) \in [Readers -> States]
  BY DEF Wake, TypeOK, States
LEMMA WakeKeeps == ASSUME TypeOK, NEW S \in SUBSET Readers, NEW r \in Readers
                   PROVE /\ (Wake(S)[r] \in {"ready", "sliced"}) <=> (rpc[r] \in {"ready", "sliced"})
                         /\ (Wake(S)[r] = "sliced") <=> (rpc[r] = "sliced")
  BY DEF Wake, TypeOK, States

Same(w) == /\ w \in [Readers -> States]
           /\ \A r \in Readers : /\ (w[r] \in {"ready", "sliced"}) <=> (rpc[r] \in {"ready", "sliced"})
                                 /\ (w[r] = "sliced") <=> (rpc[r] = "sliced")
LEMMA WakeSame == ASSUME TypeOK, NEW S \in SUBSET Readers PROVE Same(Wake(S))
  BY WakeType, WakeKeeps DEF Same
LEMMA NotifySame == ASSUME TypeOK, NEW w \in Notify(0) PROVE Same(w)
<1>1. Blocked \in SUBSET Readers
  BY DEF Blocked
<1>2. CASE NotifyAll \/ Blocked = {}
  <2>1. w = Wake(Blocked)
    BY <1>2 DEF Notify
  <2> QED
    BY <2>1, <1>1, WakeSame
<1>3. CASE ~(NotifyAll \/ Blocked = {})
  <2>1. PICK r \in Blocked : w = Wake({r})
    BY <1>3 DEF Notify
  <2>2. {r} \in SUBSET Readers
    BY <1>1
  <2> QED
    BY <2>1, <2>2, WakeSame
<1> QED
  BY <1>2, <1>3

THEOREM InitInv == Init => Inv
  BY ConstAssump DEF Init, Inv, TypeOK, States

THEOREM NextInv == Inv /\ [Next]_vars => Inv'
<1> SUFFICES ASSUME Inv, [Next]_vars PROVE Inv'
  OBVIOUS
<1> USE ConstAssump
<1>1. CASE WriteChunk
  BY <1>1 DEF WriteChunk, Inv, TypeOK
<1>2. CASE Publish
  <2>1. Same(rpc')
    <3>1. CASE Locked
      <4>1. PICK w \in Notify(0) : rpc' = w
        BY <1>2, <3>1 DEF Publish
      <4> QED
        BY <4>1, NotifySame DEF Inv
    <3>2. CASE ~Locked
      BY <1>2, <3>2 DEF Publish, Same, Inv, TypeOK
    <3> QED
      BY <3>1, <3>2
  <2>2. published' = written /\ published < written /\ UNCHANGED <<written, want, got, nreq>>
    BY <1>2 DEF Publish
  <2> QED
    BY <2>1, <2>2 DEF Inv, TypeOK, Same
<1>3. CASE NotifyStep
  <2>1. PICK w \in Notify(0) : rpc' = w
    BY <1>3 DEF NotifyStep
  <2>2. Same(rpc')
    BY <2>1, NotifySame DEF Inv
  <2> QED
    BY <1>3, <2>2 DEF NotifyStep, Inv, TypeOK, Same
<1>4. CASE Fail
  <2>1. Blocked \in SUBSET Readers
    BY DEF Blocked
  <2>2. Same(rpc')
    <3>1. CASE ReportFailure
      BY <1>4, <3>1, <2>1, WakeSame DEF Fail, Inv
    <3>2. CASE ~ReportFailure
      BY <1>4, <3>2 DEF Fail, Same, Inv, TypeOK
    <3> QED
      BY <3>1, <3>2
  <2> QED
    BY <1>4, <2>2 DEF Fail, Inv, TypeOK, Same
<1>5. ASSUME NEW r \in Readers, NEW e \in 1..Total, Request(r, e) PROVE Inv'
  BY <1>5 DEF Request, Inv, TypeOK, States
<1>6. ASSUME NEW r \in Readers, Check(r) PROVE Inv'
  BY <1>6 DEF Check, Inv, TypeOK, States
<1>7. ASSUME NEW r \in Readers, Block(r) PROVE Inv'
  BY <1>7 DEF Block, Inv, TypeOK, States
<1>8. ASSUME NEW r \in Readers, Slice(r) PROVE Inv'
  BY <1>8 DEF Slice, Inv, TypeOK, States
<1>9. ASSUME NEW r \in Readers, Finish(r) PROVE Inv'
  BY <1>9 DEF Finish, Inv, TypeOK, States
<1>10. CASE UNCHANGED vars
  BY <1>10 DEF vars, Inv, TypeOK
<1> QED
  BY <1>1, <1>2, <1>3, <1>4, <1>5, <1>6, <1>7, <1>8, <1>9, <1>10 DEF Next

THEOREM Safety == Spec => [](LengthsOrdered /\ ReadsBelowWritten)
<1>1. Inv => LengthsOrdered /\ ReadsBelowWritten
  BY ConstAssump DEF Inv, TypeOK, LengthsOrdered, ReadsBelowWritten
<1>2. Spec => []Inv
  BY InitInv, NextInv, PTL DEF Spec
<1> QED
  BY <1>1, <1>2, PTL
=============================================================================
