-------------------------- MODULE MC_ContentPack --------------------------
(* Exhaustive exploration of the insertion policy over boundary size classes.
   Every complete behaviour is printed as a REPLAY line; bin/check.py turns each into a
   scenario for the real creator (sizes scaled by Unit = ClusterSize_real / ClusterSize). *)
EXTENDS ContentPack, Json

CONSTANTS Sizes, Cids, MaxAdds, Overhead, ReplayMax

MCNext ==
  \/ /\ Len(ins) < MaxAdds
     /\ \E size \in Sizes, hint \in Hints, cid \in Cids :
          \E kind \in Decisions(hint) : PolicyAdd(cid, size, hint, kind)
  \/ Finalize

MCSpec == Init /\ [][MCNext]_vars

TailOK == TailRepresentable(Overhead)

Replay ==
  (phase = "final" /\ Len(ins) <= ReplayMax) =>
    PrintT(<<"REPLAY", ToJson([ins |-> ins, kinds |-> [i \in 1..Len(ret) |-> stored[ret[i] + 1].kind],
                               ret |-> ret, infos |-> infos,
                               compressing |-> compressing, cached |-> cached])>>)
=============================================================================
