---------------------------- MODULE EntryStore ----------------------------
(* Schema -> layout -> entry encoding and decoding; value stores.
   (creator/directory_pack/{schema,layout}/*, value_store.rs; reader/directory_pack/
   {raw_layout,layout,builder,value_store}.rs).  Properties C02 (and the layout part of C14).

   Integer property values are digit strings (little-endian sequences over 0..Radix-1 of a
   fixed length NDigits): TLC integers are 32-bit, property values are 64-bit.  The exhaustive
   configuration uses Radix 4 / NDigits 3, the trace configuration Radix 256 / NDigits 8.

   PROPERTY LEVEL: a layout is acceptable when it is *sufficient* for the values written
   (the Sufficient operators), whatever widths it chose.  POLICY LEVEL: PolicyLayout is the layout the code
   computes today (width = needed_bytes(max), constant column -> default); the exhaustive
   configuration checks that the policy layout is sufficient and that decoding what was
   encoded gives back every value (RoundTrip). *)
EXTENDS Integers, Sequences, FiniteSets, TLC

CONSTANTS Radix, NDigits,
          SignedRule      \* "code": width from needed_bytes(max) as the pinned code does (F2)
                          \* "minmax": width sufficient for the minimum and the maximum (repaired)

Digit == 0..(Radix - 1)
Half == Radix \div 2
Zeros(n) == [i \in 1..n |-> 0]
Fill(n, d) == [i \in 1..n |-> d]

(* ---------------------------------------------------------------- digit strings *)
IsNeg(d) == d[Len(d)] >= Half                      \* two's complement sign of a full-length value
FitsUD(d, w) == \A i \in 1..Len(d) : i > w => d[i] = 0
FitsSD(d, w) == w >= 1 /\ w <= Len(d) /\
                LET f == IF d[w] >= Half THEN Radix - 1 ELSE 0
                IN \A i \in 1..Len(d) : i > w => d[i] = f
TruncD(d, w) == SubSeq(d, 1, w)
ExtU(t, n) == t \o Zeros(n - Len(t))
ExtS(t, n) == t \o Fill(n - Len(t), IF t[Len(t)] >= Half THEN Radix - 1 ELSE 0)
RECURSIVE NeededUD(_)
NeededUD(d) == IF Len(d) = 1 THEN 1
               ELSE IF d[Len(d)] # 0 THEN Len(d) ELSE NeededUD(SubSeq(d, 1, Len(d) - 1))
RECURSIVE NeededSDFrom(_, _)
NeededSDFrom(d, w) == IF FitsSD(d, w) THEN w ELSE NeededSDFrom(d, w + 1)
NeededSD(d) == NeededSDFrom(d, 1)
(* unsigned order on equal-length digit strings (most significant digit last) *)
RECURSIVE ULess(_, _)
ULess(a, b) == IF Len(a) = 0 THEN FALSE
               ELSE IF a[Len(a)] # b[Len(b)] THEN a[Len(a)] < b[Len(b)]
               ELSE ULess(SubSeq(a, 1, Len(a) - 1), SubSeq(b, 1, Len(b) - 1))
SLess(a, b) == IF IsNeg(a) # IsNeg(b) THEN IsNeg(a) ELSE ULess(a, b)
MaxBy(S, Less(_, _)) == CHOOSE m \in S : \A x \in S : ~Less(m, x)
MinBy(S, Less(_, _)) == CHOOSE m \in S : \A x \in S : ~Less(x, m)

NeededNat(n) == LET RECURSIVE nb(_) nb(v) == IF v < Radix THEN 1 ELSE 1 + nb(v \div Radix) IN nb(n)
RECURSIVE PowR(_)
PowR(n) == IF n = 0 THEN 1 ELSE Radix * PowR(n - 1)
FitsNat(n, w) == n < PowR(w)

(* the width the pinned code gives a signed column: needed_bytes(max) with max an i64;
   the loop `while val > 0 { val >>= 8 }` never runs for a negative maximum *)
CodeSignedWidth(S) ==
  LET mx == MaxBy(S, SLess) IN IF IsNeg(mx) THEN 1 ELSE NeededUD(mx)
MinMaxSignedWidth(S) ==
  LET a == NeededSD(MaxBy(S, SLess)) b == NeededSD(MinBy(S, SLess)) IN IF a > b THEN a ELSE b
SignedWidth(S) == IF SignedRule = "code" THEN CodeSignedWidth(S) ELSE MinMaxSignedWidth(S)

(* ---------------------------------------------------------------- value stores *)
(* byte strings compare lexicographically, shorter prefix first (Rust's Ord on [u8]) *)
RECURSIVE BLess(_, _)
BLess(a, b) == IF Len(b) = 0 THEN FALSE
               ELSE IF Len(a) = 0 THEN TRUE
               ELSE IF a[1] # b[1] THEN a[1] < b[1]
               ELSE BLess(Tail(a), Tail(b))
RECURSIVE SortB(_)
SortB(S) == IF S = {} THEN <<>>
            ELSE LET m == CHOOSE x \in S : \A y \in S : ~BLess(y, x) IN <<m>> \o SortB(S \ {m})
RECURSIVE Concat(_)
Concat(ss) == IF Len(ss) = 0 THEN <<>> ELSE Head(ss) \o Concat(Tail(ss))
RECURSIVE OffsetOf(_, _)
OffsetOf(ss, k) == IF k = 1 THEN 0 ELSE Len(ss[k - 1]) + OffsetOf(ss, k - 1)
IndexOfIn(ss, v) == CHOOSE k \in 1..Len(ss) : ss[k] = v

(* a finalized store: the distinct values in sorted order; plain id = offset of the value in
   the concatenation, indexed id = rank *)
StoreOf(kind, vals) == [kind |-> kind, sorted |-> SortB(vals)]
StoreId(st, v) == IF st.kind = "plain" THEN OffsetOf(st.sorted, IndexOfIn(st.sorted, v))
                  ELSE IndexOfIn(st.sorted, v) - 1
StoreData(st) == Concat(st.sorted)
StoreKeyWidth(st) == IF st.kind = "plain" THEN NeededNat(Len(StoreData(st))) ELSE NeededNat(Len(st.sorted))
StoreGet(st, id, n) == IF st.kind = "plain" THEN SubSeq(StoreData(st), id + 1, id + n)
                       ELSE SubSeq(st.sorted[id + 1], 1, n)

(* ---------------------------------------------------------------- array column *)
Min2(a, b) == IF a <= b THEN a ELSE b
ArrHead(v, prefix) == SubSeq(v, 1, Min2(Len(v), prefix))
ArrRest(v, prefix) == SubSeq(v, Min2(Len(v), prefix) + 1, Len(v))
(* encoding of one array value: <<len, prefix bytes zero padded, id>> *)
ArrEncode(v, prefix, st) ==
  [len |-> Len(v),
   pre |-> ArrHead(v, prefix) \o Zeros(prefix - Len(ArrHead(v, prefix))),
   id |-> StoreId(st, ArrRest(v, prefix))]
ArrDecode(f, prefix, st) ==
  LET h == Min2(f.len, prefix) IN SubSeq(f.pre, 1, h) \o StoreGet(st, f.id, f.len - h)
=============================================================================
