------------------------------ MODULE Packaging ------------------------------
(* Packaging and location of packs (creator/{basic_creator,container_pack,manifest_pack}.rs,
   reader/{jubako,container_pack,locator,missing,manifest_pack}.rs, tools.rs).
   Properties C10, C11, C12.

   A pack's identity is its uuid.  Files hold packs: a container file holds any number of
   them (and is itself a container pack), a plain file holds exactly one.  The manifest records
   for every other pack a location string.  The reader is given the entry-point file; a pack
   is looked for by identity inside that file first, then in the file at its recorded
   location.

   Locate is the property-level resolution (identity decides).  PinnedLocate is what the code
   of the pinned commit does (the file at the recorded location is handed over whole, whatever
   it holds): the exhaustive configuration shows where the two differ (findings F5, F6). *)
EXTENDS Naturals, Sequences, FiniteSets, TLC

CONSTANTS ContentPacks,    \* identities of the content packs, e.g. {"c1", "c2", "c3"}
          Main,            \* the content pack BasicCreator fills itself (the others are extra packs)
          LocatePolicy,    \* "identity" | "pinned"
          MaxOps           \* bound on fault / relocation operations per behaviour

Others == {"d"} \cup ContentPacks              \* every pack the manifest describes
Packs == {"m"} \cup Others
Paths == {"main", "dir", "content", "cat", "moved"} \cup {"x_" \o c : c \in ContentPacks}
NoFile == [kind |-> "none", packs |-> {}, wrapped |-> FALSE, prefix |-> FALSE]
File(ps, wrapped) == [kind |-> "file", packs |-> ps, wrapped |-> wrapped, prefix |-> FALSE]

VARIABLES fs,      \* path -> file
          loc,     \* pack -> recorded location ("" = none)
          entry,   \* path of the entry point, "" before creation
          lost,    \* packs made unavailable by a fault operation
          nops,
          mode
vars == <<fs, loc, entry, lost, nops, mode>>

Init == /\ fs = [p \in Paths |-> NoFile] /\ loc = [u \in Others |-> ""] /\ entry = "" /\ lost = {} /\ nops = 0
        /\ mode = "none"

Extra == ContentPacks \ {Main}

(* BasicCreator::finalize in its three modes; extra content packs always go to their own files *)
Create(m) ==
  /\ entry = ""
  /\ mode' = m
  /\ LET extraFiles == [p \in Paths |-> IF \E c \in Extra : p = "x_" \o c
                                          THEN File({CHOOSE c \in Extra : p = "x_" \o c}, FALSE) ELSE NoFile]
         extraLoc == [u \in Others |-> IF u \in Extra THEN "x_" \o u ELSE ""] IN
     CASE m = "one" ->
            /\ fs' = [extraFiles EXCEPT !["main"] = File({"m", "d", Main}, TRUE)]
            /\ loc' = extraLoc
       [] m = "two" ->
            /\ fs' = [extraFiles EXCEPT !["main"] = File({"m", "d"}, TRUE), !["content"] = File({Main}, TRUE)]
            /\ loc' = [extraLoc EXCEPT ![Main] = "content"]
       [] m = "none" ->
            /\ fs' = [extraFiles EXCEPT !["main"] = File({"m"}, FALSE), !["dir"] = File({"d"}, FALSE),
                                         !["content"] = File({Main}, TRUE)]
            /\ loc' = [extraLoc EXCEPT ![Main] = "content", !["d"] = "dir"]
  /\ entry' = "main"
  /\ UNCHANGED <<lost, nops>>

(* tools::concat: a new container holding every pack of the input files; it becomes the entry point *)
Concat(inputs) ==
  /\ entry # "" /\ fs["cat"].kind = "none" /\ inputs # {} /\ "main" \in inputs
  /\ \A p \in inputs : fs[p].kind = "file"
  /\ fs' = [fs EXCEPT !["cat"] = File(UNION {fs[p].packs : p \in inputs}, TRUE)]
  /\ entry' = "cat"
  /\ UNCHANGED <<loc, lost, nops, mode>>

(* a file embedded at the end of another file (arbitrary bytes in front of it): the entry point when it is a
   container, or any file a pack is found in through its recorded location - every pack carries its header again
   at its end, and that is where an embedded pack is looked for *)
Prepend(p) ==
  /\ entry # "" /\ p \in Paths /\ fs[p].kind = "file" /\ ~fs[p].prefix
  /\ p = entry => fs[p].wrapped
  /\ nops < MaxOps /\ nops' = nops + 1
  /\ fs' = [fs EXCEPT ![p].prefix = TRUE]
  /\ UNCHANGED <<loc, entry, lost, mode>>

(* faults on the file of a content pack *)
FaultTargets == {p \in Paths : fs[p].kind = "file" /\ p # entry /\ fs[p].packs \subseteq ContentPacks}
Remove(p) == /\ p \in FaultTargets /\ nops < MaxOps
             /\ fs' = [fs EXCEPT ![p] = NoFile] /\ nops' = nops + 1
             /\ lost' = lost \cup fs[p].packs /\ UNCHANGED <<loc, entry, mode>>
ReplaceByDir(p) == /\ p \in FaultTargets /\ nops < MaxOps
                   /\ fs' = [fs EXCEPT ![p] = [NoFile EXCEPT !.kind = "dir"]] /\ nops' = nops + 1
                   /\ lost' = lost \cup fs[p].packs /\ UNCHANGED <<loc, entry, mode>>
ReplaceByOther(p) == /\ p \in FaultTargets /\ nops < MaxOps
                     /\ fs' = [fs EXCEPT ![p] = File({"foreign"}, fs[p].wrapped)] /\ nops' = nops + 1
                     /\ lost' = lost \cup fs[p].packs /\ UNCHANGED <<loc, entry, mode>>

(* tools::set_location (C12); the file follows when it is moved, otherwise the pack is no
   longer where the manifest says *)
SetLocation(u, p, moveFile) ==
  /\ entry # "" /\ u \in Others /\ nops < MaxOps
  /\ loc' = [loc EXCEPT ![u] = p]
  /\ IF moveFile /\ loc[u] # "" /\ fs[loc[u]].kind = "file" /\ p # loc[u] /\ p # "" /\ fs[p].kind = "none"
       THEN fs' = [fs EXCEPT ![p] = fs[loc[u]], ![loc[u]] = NoFile]
       ELSE fs' = fs
  /\ nops' = nops + 1
  /\ UNCHANGED <<entry, lost, mode>>

Next == \/ \E m \in {"one", "two", "none"} : Create(m)
        \/ \E S \in SUBSET {p \in Paths : fs[p].kind = "file" /\ p # "cat"} : Concat(S)
        \/ \E p \in Paths : Prepend(p)
        \/ \E p \in Paths : Remove(p) \/ ReplaceByDir(p) \/ ReplaceByOther(p)
        \/ \E u \in ContentPacks : SetLocation(u, "moved", TRUE)
Spec == Init /\ [][Next]_vars

(* ------------------------------------------------------------------ the reader *)
Holds(p, u) == p \in Paths /\ fs[p].kind = "file" /\ u \in fs[p].packs        \* a location naming no existing file holds nothing

(* property level: identity decides *)
Locate(u) == IF entry # "" /\ Holds(entry, u) THEN "in"
             ELSE IF Holds(loc[u], u) THEN "at"
             ELSE "missing"

(* the pinned code: FsLocator returns the file at the location whatever it holds, the pack
   parser is then applied to the whole file *)
PinnedLocate(u) ==
  IF entry # "" /\ Holds(entry, u) THEN "in"
  ELSE IF loc[u] \in Paths /\ fs[loc[u]].kind = "file"
         THEN IF fs[loc[u]].wrapped THEN "error"                       \* "Pack Magic is not ContentPack" (F5)
              ELSE IF fs[loc[u]].packs = {u} THEN "at" ELSE "foreign"  \* bytes of another pack (F6)
  ELSE "missing"

Resolve(u) == IF LocatePolicy = "identity" THEN Locate(u) ELSE PinnedLocate(u)

Available(u) == \E p \in Paths : Holds(p, u) /\ (p = entry \/ p = loc[u])

(* ------------------------------------------------------------------ properties *)
(* C10: as long as nothing was lost, every pack is found, in every packaging *)
SameLogicalContent == (entry # "" /\ lost = {}) => \A u \in Others : (Available(u) => Resolve(u) \in {"in", "at"})
(* C11: a pack resolves to itself or is reported missing; nothing else *)
IdentityIsUuid == entry # "" => \A u \in Others : Resolve(u) \in {"in", "at", "missing"}
MissingIsReported == entry # "" => \A u \in ContentPacks : (Resolve(u) = "missing") <=> ~Available(u)
PresentStillReads == entry # "" => \A u \in Others : Available(u) => Resolve(u) \in {"in", "at"}
(* the entry point always holds the manifest *)
EntryHasManifest == entry # "" => Holds(entry, "m")
=============================================================================
