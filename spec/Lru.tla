--------------------------------- MODULE Lru ---------------------------------
(* The least-recently-used policy of bases/cache.rs (crate lru, try_get_or_insert) as pure
   operators on a sequence of keys, most recently used first.  Shared by ClusterCache (design
   level) and DecoderTrace (the CacheGet hook of the real reader is compared with it). *)
EXTENDS Naturals, Sequences

Keys(s) == {s[i] : i \in 1..Len(s)}
Without(s, k) == SelectSeq(s, LAMBDA x : x # k)
(* a hit moves the key to the front; a miss inserts it at the front and drops the last key when the cache is full *)
Touch(s, k, slots) ==
  IF k \in Keys(s) THEN <<k>> \o Without(s, k)
  ELSE IF Len(s) >= slots THEN <<k>> \o SubSeq(s, 1, slots - 1)
  ELSE <<k>> \o s
Evicted(s, k, slots) == IF k \notin Keys(s) /\ Len(s) >= slots THEN {s[i] : i \in slots..Len(s)} ELSE {}
=============================================================================
