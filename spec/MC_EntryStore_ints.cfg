\* integer columns: every set of <=3 entries over boundary digit strings (Radix 4, 3 digits)
CONSTANTS
  Radix = 4
  NDigits = 3
  SignedRule = "minmax"
  ReaderRule = "marker"
  UVals <- UBoundary
  SVals <- SBoundary
  AVals <- AEmpty
  YVals <- Zero3
  XVals <- Zero3
  VSet = {1}
  Prefix = 0
  StoreKind = "plain"
  MaxEntries = 2
SPECIFICATION Spec
INVARIANTS RoundTrip Sufficient VariantsEqualSize LayoutReparses StoreResolves
CHECK_DEADLOCK FALSE
