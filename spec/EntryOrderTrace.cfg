CONSTANTS
  Radix = 256
  NDigits = 8
  SignedRule = "minmax"
SPECIFICATION OrderSpec
INVARIANT Done
POSTCONDITION TraceAccepted
CHECK_DEADLOCK FALSE
