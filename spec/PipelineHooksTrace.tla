------------------------- MODULE PipelineHooksTrace -------------------------
(* Code -> spec for C08, inside the pipeline: the hooks of the hooked build
   (creator/content_pack/clusterwriter.rs, cfg(jubako_verif)) fire at the steps that are the
   actions of ClusterPipeline.tla:

     PDispatch  main thread, counter incremented under its mutex, before the send  (MainSendComp)
     PRaw       main thread, before the send to the writer                          (MainSendRaw)
     PTake      a worker, after its recv                                            (WorkerTake)
     PDone      the worker, output ready, before the send to the writer   \
     PDec       the worker, counter decremented under its mutex           /        (WorkerDone)
     PWrite     the writer, task written, its tail offset rebased                   (WriterStep)
     PAddr      the writer, address table assigned at the cluster's id              (WriterStep)
     PClose     main thread, before dropping its senders                            (MainClose)
     PWorkerExit, PWriterExit                                                       (WorkerExit, WriterExit)

   Events are logged before a send and after a receive, so that the log order of two events
   about one cluster is the order of the steps.  The state below is the state of
   ClusterPipeline (the two channels as sets: events of different threads about different
   clusters may be logged in another order than the channel's), and every event must be an
   enabled step of it with the values observed:

     QueueBound              the counter a dispatch reports is the counter + 1 and <= MaxQueue,
                             a decrement reports the counter - 1 (both under the mutex: exact)
     WrittenOnce             a cluster is dispatched, taken, sent and written once, in that order
     Rebase                  the tail offset recorded for a compressed cluster is the position
                             where its buffer was written + the tail offset inside the buffer
     NoOverlap               a task is written where the previous one ended
     IndexAssign             after cluster id is recorded the table has max(len, id + 1) entries
     NothingLost / exits     workers leave only after PClose with nothing left to take, the writer
                             after every worker, with every cluster written and the table complete
   and, after finalisation (Tail events, from the independent decoder): the cluster table of
   the file holds, for every id, the tail offset the writer recorded. *)
EXTENDS Integers, Sequences, FiniteSets, TLC, Json, IOUtils

Rec == ndJsonDeserialize(IOEnv.TRACE)
VARIABLES l, W, maxQ, seen, dispatched, fusion, inQueue, busy, rel, written, filePos, addrLen, closed, exited, writerDone, drift
tvars == <<l, W, maxQ, seen, dispatched, fusion, inQueue, busy, rel, written, filePos, addrLen, closed, exited, writerDone, drift>>
Unset == -1

TraceInit == /\ l = 1 /\ W = 1 /\ maxQ = 2 /\ seen = {} /\ dispatched = {} /\ fusion = {} /\ inQueue = 0 /\ busy = <<>> /\ rel = <<>>
             /\ written = <<>> /\ filePos = -1 /\ addrLen = 0 /\ closed = FALSE /\ exited = {} /\ writerDone = FALSE /\ drift = 0
IsEvent(e) == l <= Len(Rec) /\ Rec[l].ev = e /\ l' = l + 1
IsHook(n) == l <= Len(Rec) /\ Rec[l].ev = "Hook" /\ Rec[l].name = n /\ l' = l + 1
Put(f, k, v) == [x \in DOMAIN f \cup {k} |-> IF x = k THEN v ELSE f[x]]
BusyOf(t) == IF t \in DOMAIN busy THEN busy[t] ELSE Unset

TraceNew ==
  /\ IsEvent("New")
  /\ W' = Rec[l].workers /\ maxQ' = Rec[l].maxQueue /\ seen' = {} /\ dispatched' = {} /\ fusion' = {} /\ inQueue' = 0 /\ busy' = <<>>
  /\ rel' = <<>> /\ written' = <<>> /\ filePos' = -1 /\ addrLen' = 0 /\ closed' = FALSE /\ exited' = {} /\ writerDone' = FALSE
  /\ UNCHANGED drift
TraceDispatch ==
  /\ IsHook("PDispatch")
  /\ LET r == Rec[l] IN
       (/\ ~closed /\ r.a \notin seen
        /\ r.id = maxQ                                  \* the bound the code waits on is 2 * workers
        /\ inQueue < maxQ /\ r.b = inQueue + 1) = TRUE  \* QueueBound
  /\ seen' = seen \cup {Rec[l].a} /\ dispatched' = dispatched \cup {Rec[l].a} /\ inQueue' = Rec[l].b
  /\ UNCHANGED <<W, maxQ, fusion, busy, rel, written, filePos, addrLen, closed, exited, writerDone, drift>>
TraceRaw ==
  /\ IsHook("PRaw")
  /\ (~closed /\ Rec[l].a \notin seen) = TRUE
  /\ seen' = seen \cup {Rec[l].a} /\ fusion' = fusion \cup {Rec[l].a}
  /\ UNCHANGED <<W, maxQ, dispatched, inQueue, busy, rel, written, filePos, addrLen, closed, exited, writerDone, drift>>
TraceTake ==
  /\ IsHook("PTake")
  /\ LET r == Rec[l] IN
       /\ (r.a \in dispatched /\ BusyOf(r.thread) = Unset /\ r.thread \notin exited) = TRUE
       /\ dispatched' = dispatched \ {r.a} /\ busy' = Put(busy, r.thread, r.a)
       /\ drift' = drift + (IF Cardinality(DOMAIN busy \cup {r.thread}) <= W THEN 0 ELSE 1)
  /\ UNCHANGED <<W, maxQ, seen, fusion, inQueue, rel, written, filePos, addrLen, closed, exited, writerDone>>
TraceDoneHook ==
  /\ IsHook("PDone")
  /\ LET r == Rec[l] IN
       /\ (BusyOf(r.thread) = r.a /\ r.a \notin fusion /\ r.b <= r.id) = TRUE      \* the tail lies inside the worker's buffer
       /\ fusion' = fusion \cup {r.a} /\ rel' = Put(rel, r.a, r.b)
  /\ UNCHANGED <<W, maxQ, seen, dispatched, inQueue, busy, written, filePos, addrLen, closed, exited, writerDone, drift>>
TraceDec ==
  /\ IsHook("PDec")
  /\ LET r == Rec[l] IN
       /\ (BusyOf(r.thread) = r.a /\ r.a \in DOMAIN rel /\ inQueue >= 1 /\ r.b = inQueue - 1) = TRUE
       /\ inQueue' = r.b /\ busy' = Put(busy, r.thread, Unset)
  /\ UNCHANGED <<W, maxQ, seen, dispatched, fusion, rel, written, filePos, addrLen, closed, exited, writerDone, drift>>
TraceWrite ==
  /\ IsHook("PWrite")
  /\ LET r == Rec[l] IN
       /\ (/\ r.a \in fusion /\ r.a \notin DOMAIN written                                  \* WrittenOnce
           /\ filePos = -1 \/ r.id = filePos                                                \* NoOverlap: written where the last one ended
           /\ IF r.a \in DOMAIN rel THEN r.b = r.id + rel[r.a] ELSE r.b >= r.id) = TRUE    \* Rebase
       /\ fusion' = fusion \ {r.a} /\ written' = Put(written, r.a, r.b)
  /\ UNCHANGED <<W, maxQ, seen, dispatched, inQueue, busy, rel, filePos, addrLen, closed, exited, writerDone, drift>>
TraceAddrHook ==
  /\ IsHook("PAddr")
  /\ LET r == Rec[l] IN
       /\ (/\ r.a \in DOMAIN written /\ written[r.a] < r.id
           /\ r.b = (IF addrLen > r.a THEN addrLen ELSE r.a + 1)) = TRUE                  \* IndexAssign
       /\ addrLen' = r.b /\ filePos' = r.id
  /\ UNCHANGED <<W, maxQ, seen, dispatched, fusion, inQueue, busy, rel, written, closed, exited, writerDone, drift>>
TraceClose ==
  /\ IsHook("PClose")
  /\ (~closed /\ Rec[l].a = W) = TRUE
  /\ closed' = TRUE
  /\ UNCHANGED <<W, maxQ, seen, dispatched, fusion, inQueue, busy, rel, written, filePos, addrLen, exited, writerDone, drift>>
TraceWorkerExit ==
  /\ IsHook("PWorkerExit")
  \* (another worker may have received the last cluster and not logged its PTake yet: the emptiness of the
  \*  dispatch channel is required when the writer leaves, not here)
  /\ (closed /\ BusyOf(Rec[l].thread) = Unset /\ Rec[l].thread \notin exited) = TRUE
  /\ exited' = exited \cup {Rec[l].thread}
  /\ UNCHANGED <<W, maxQ, seen, dispatched, fusion, inQueue, busy, rel, written, filePos, addrLen, closed, writerDone, drift>>
TraceWriterExit ==
  /\ IsHook("PWriterExit")
  /\ (/\ closed /\ Cardinality(exited) = W /\ fusion = {} /\ inQueue = 0 /\ ~writerDone      \* NothingLost
      /\ dispatched = {} /\ DOMAIN written = seen                                            \* AllAddressed
      /\ Rec[l].b = addrLen /\ (seen # {} => \A i \in seen : i < addrLen)) = TRUE
  /\ writerDone' = TRUE
  /\ UNCHANGED <<W, maxQ, seen, dispatched, fusion, inQueue, busy, rel, written, filePos, addrLen, closed, exited, drift>>
(* after finalisation: the cluster table found in the file by the independent decoder *)
TraceTail ==
  /\ IsEvent("Tail")
  /\ (writerDone /\ Rec[l].id \in DOMAIN written /\ written[Rec[l].id] = Rec[l].tail) = TRUE
  /\ UNCHANGED <<W, maxQ, seen, dispatched, fusion, inQueue, busy, rel, written, filePos, addrLen, closed, exited, writerDone, drift>>
TraceEnd ==
  /\ IsEvent("Done")
  /\ (writerDone /\ Rec[l].clusterCount = Cardinality(seen)) = TRUE
  /\ UNCHANGED <<W, maxQ, seen, dispatched, fusion, inQueue, busy, rel, written, filePos, addrLen, closed, exited, writerDone, drift>>

TraceNext == TraceNew \/ TraceDispatch \/ TraceRaw \/ TraceTake \/ TraceDoneHook \/ TraceDec \/ TraceWrite \/ TraceAddrHook
             \/ TraceClose \/ TraceWorkerExit \/ TraceWriterExit \/ TraceTail \/ TraceEnd
TraceSpec == TraceInit /\ [][TraceNext]_tvars
Done == (l = Len(Rec) + 1) => PrintT(<<"DRIFT", drift>>)
TraceAccepted ==
  LET d == TLCGet("stats").diameter IN
  IF d - 1 = Len(Rec) THEN TRUE
  ELSE /\ PrintT(<<"REJECTED", d, IF d <= Len(Rec) THEN Rec[d].ev ELSE "end">>)
       /\ FALSE
=============================================================================
