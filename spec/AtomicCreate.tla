---------------------------- MODULE AtomicCreate ----------------------------
(* Atomic creation through BasicCreator (creator/mod.rs AtomicOutFile, creator/basic_creator.rs).
   Property C09.

   The creator produces its output files in a fixed order (content pack file, extra content
   packs, directory pack, entry point - depending on the packaging mode).  Each output is
   written to a temporary file in the destination directory and renamed onto its destination
   once complete.  A crash (process death) or an I/O error may happen between any two steps.
   The destination paths must at all times be absent, hold the previous complete file, or hold
   the new complete file, and the entry point must never be in place before the files it names.

   WriteInPlace (a constant) models the defect of writing a destination directly. *)
EXTENDS Naturals, Sequences, FiniteSets, TLC

CONSTANTS Mode,          \* "one" | "two" | "none"
          NExtra,        \* number of extra content packs (0..2)
          PreExisting,   \* BOOLEAN: destinations hold a previous complete container
          WriteInPlace,  \* set of outputs written directly at their destination (defect); {} for the code
          EntryFirst     \* BOOLEAN: persist the entry point before the others (defect); FALSE for the code

(* outputs in the order BasicCreator::finalize persists them *)
Extras == [i \in 1..NExtra |-> "extra" \o ToString(i)]
Outputs ==
  LET ordered == CASE Mode = "one" -> Extras \o <<"entry">>
                   [] Mode = "two" -> <<"content">> \o Extras \o <<"entry">>
                   [] Mode = "none" -> <<"content">> \o Extras \o <<"dir">> \o <<"entry">>
  IN IF EntryFirst THEN <<"entry">> \o SubSeq(ordered, 1, Len(ordered) - 1) ELSE ordered
Names == {Outputs[i] : i \in 1..Len(Outputs)}
Refs == Names \ {"entry"}        \* the files the entry point refers to

VARIABLES dest,     \* output -> "absent" | "previous" | "partial" | "complete"
          temp,     \* output -> "none" | "partial" | "complete"     (its temporary file)
          pc,       \* index of the output being produced
          step,     \* "create" | "write" | "finish" | "persist"
          alive     \* FALSE after a crash or an I/O error ended the creation
vars == <<dest, temp, pc, step, alive>>

Init == /\ dest = [o \in Names |-> IF PreExisting THEN "previous" ELSE "absent"]
        /\ temp = [o \in Names |-> "none"]
        /\ pc = 1 /\ step = "create" /\ alive = TRUE

Cur == Outputs[pc]
Running == alive /\ pc <= Len(Outputs)

CreateTemp ==
  /\ Running /\ step = "create"
  /\ IF Cur \in WriteInPlace
       THEN dest' = [dest EXCEPT ![Cur] = "partial"] /\ UNCHANGED temp        \* open(dest, O_TRUNC)
       ELSE temp' = [temp EXCEPT ![Cur] = "partial"] /\ UNCHANGED dest
  /\ step' = "write" /\ UNCHANGED <<pc, alive>>
WriteSome ==
  /\ Running /\ step = "write"
  /\ step' \in {"write", "finish"} /\ UNCHANGED <<dest, temp, pc, alive>>
Finish ==                                            \* last byte written (header, check, tail)
  /\ Running /\ step = "finish"
  /\ IF Cur \in WriteInPlace
       THEN dest' = [dest EXCEPT ![Cur] = "complete"] /\ UNCHANGED temp
       ELSE temp' = [temp EXCEPT ![Cur] = "complete"] /\ UNCHANGED dest
  /\ step' = "persist" /\ UNCHANGED <<pc, alive>>
Persist ==                                           \* rename(temp, dest)
  /\ Running /\ step = "persist"
  /\ IF Cur \in WriteInPlace THEN UNCHANGED <<dest, temp>>
     ELSE dest' = [dest EXCEPT ![Cur] = "complete"] /\ temp' = [temp EXCEPT ![Cur] = "none"]
  /\ pc' = pc + 1 /\ step' = "create" /\ UNCHANGED alive
(* process death: nothing else happens, temporary files stay *)
Crash == Running /\ alive' = FALSE /\ UNCHANGED <<dest, temp, pc, step>>
(* an I/O error is returned: the temporary file is dropped (NamedTempFile) *)
IoError == /\ Running /\ step \in {"write", "finish", "persist"}
           /\ alive' = FALSE /\ temp' = [temp EXCEPT ![Cur] = "none"] /\ UNCHANGED <<dest, pc, step>>

Next == CreateTemp \/ WriteSome \/ Finish \/ Persist \/ Crash \/ IoError
Spec == Init /\ [][Next]_vars

(* ------------------------------------------------------------------ properties *)
DestAllOrNothing == \A o \in Names : dest[o] \in {"absent", "previous", "complete"}
(* the new entry point is in place only when every file it names is *)
EntryPointLast == dest["entry"] = "complete" => \A o \in Refs : dest[o] = "complete"
NoPartialAtDest == \A o \in Names : dest[o] # "partial"
=============================================================================
