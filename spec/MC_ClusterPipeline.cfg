CONSTANTS
  W = 2
  N = 4
  MaxQueue = 1
  Rebase = TRUE
  IndexAssign = TRUE
SPECIFICATION FairSpec
INVARIANTS QueueBound WrittenOnce NoOverlap AddressPointsToOwnTail AllAddressed NothingLost
PROPERTIES Terminates
CHECK_DEADLOCK FALSE
