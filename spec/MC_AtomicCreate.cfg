CONSTANTS
  Mode = "none"
  NExtra = 2
  PreExisting = TRUE
  WriteInPlace = {}
  EntryFirst = FALSE
SPECIFICATION Spec
INVARIANTS DestAllOrNothing EntryPointLast NoPartialAtDest
CHECK_DEADLOCK FALSE
