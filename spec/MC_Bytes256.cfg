CONSTANTS
  Radix = 256
  Bound = 300
SPECIFICATION Spec
