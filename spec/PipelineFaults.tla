--------------------------- MODULE PipelineFaults ---------------------------
(* ClusterPipeline.tla with the failure path of the writer thread: what the cluster pipeline of
   creator/content_pack/clusterwriter.rs does when a write to the output fails (disk full, file
   size limit, ...) while clusters are in flight.  This is behaviour beyond the sixteen listed
   properties (C08 quantifies over schedules without faults, C09 over what is at the destination);
   it is in the specification because it is a state machine of the code and its liveness is not
   obvious.  Every step below was read off the code and observed through the hooks of the hooked
   build (tools/p_pipeline.py, stage "faults"):

     WriterFail     the writer's write fails: the thread leaves its loop (ClusterWriter::run returns
                    the error / unwinds), its receiver is dropped
     WorkerPanic    a worker whose output is ready sends it: `self.output.send(..).unwrap()` panics
                    (clusterwriter.rs:186) *before* the counter nb_cluster_in_queue is decremented and
                    before the condition variable is notified     (DecOnFail = FALSE: the code's policy)
     MainPanicRaw   main sends a raw cluster to the writer: `.expect("Receiver should not be closed")`
     MainPanicComp  main has passed the back-pressure wait, incremented the counter, and sends to the
                    workers when none of them is left: same expect
     MainJoin       finalize joins the workers and the writer: a panicked thread makes join().unwrap()
                    panic, a writer that returned an error makes finalize return it

   The main thread's wait `wait_while(count >= max_queue_size)` is the guard of MainSendComp; it has
   no way out but a decrement.  Under the code's policy TLC finds the state Stuck (main waiting, the
   counter at its bound, every worker dead): creation neither returns nor fails - it blocks forever.
   With DecOnFail = TRUE (a worker decrements and notifies whether or not its send succeeded) Settles
   holds: every behaviour ends in "ok" or "fail".  Safety holds under both policies: success is never
   reported after a failure (OkMeansComplete), and what was written before the failure still obeys
   the invariants of ClusterPipeline. *)
EXTENDS ClusterPipeline

CONSTANTS DecOnFail,    \* BOOLEAN: a worker decrements the counter and notifies even when its send fails
          MaxFaults,    \* 0 or 1: the writer may fail
          WorkerFaults  \* BOOLEAN: a worker's compression may fail (compress_cluster(..)? returns the error: an input
                        \* that cannot be read, an encoder error); modelled from the code, not reached from outside

VARIABLES wfail,        \* the writer thread has left on a write error
          dead,         \* workers that panicked
          mainSt        \* "run" | "closed" (senders dropped, joining) | "ok" | "fail"

fvars == <<vars, wfail, dead, mainSt>>
Alive == Workers \ (dead \cup exited)

FInit == Init /\ wfail = FALSE /\ dead = {} /\ mainSt = "run"

(* ---- the steps of ClusterPipeline, guarded by the state of the failure path *)
FMainSendRaw == mainSt = "run" /\ ~wfail /\ MainSendRaw /\ UNCHANGED <<wfail, dead, mainSt>>
FMainSendComp == mainSt = "run" /\ Alive # {} /\ MainSendComp /\ UNCHANGED <<wfail, dead, mainSt>>
FMainClose == mainSt = "run" /\ MainClose /\ mainSt' = "closed" /\ UNCHANGED <<wfail, dead>>
FWorkerTake(w) == w \notin dead /\ WorkerTake(w) /\ UNCHANGED <<wfail, dead, mainSt>>
FWorkerDone(w) == w \notin dead /\ ~wfail /\ WorkerDone(w) /\ UNCHANGED <<wfail, dead, mainSt>>
FWorkerExit(w) == w \notin dead /\ WorkerExit(w) /\ UNCHANGED <<wfail, dead, mainSt>>
FWriterStep == ~wfail /\ WriterStep /\ UNCHANGED <<wfail, dead, mainSt>>
FWriterExit ==
  /\ ~wfail /\ ~writerDone /\ fusionQ = <<>> /\ ~txOpen /\ (exited \cup dead) = Workers
  /\ writerDone' = TRUE
  /\ UNCHANGED <<Kinds, next, dispatchQ, fusionQ, inQueue, busy, txOpen, exited, filePos, segs, addr, wfail, dead, mainSt>>

(* ---- the failure path *)
WriterFail ==
  /\ MaxFaults > 0 /\ ~wfail /\ ~writerDone /\ fusionQ # <<>>
  /\ wfail' = TRUE
  /\ fusionQ' = <<>>                                   \* the receiver is dropped with what it holds
  /\ UNCHANGED <<Kinds, next, dispatchQ, inQueue, busy, txOpen, exited, filePos, segs, addr, writerDone, dead, mainSt>>
WorkerPanic(w) ==
  /\ w \notin dead /\ wfail /\ busy[w] # Unset
  /\ dead' = dead \cup {w}
  /\ busy' = [busy EXCEPT ![w] = Unset]
  /\ inQueue' = IF DecOnFail THEN inQueue - 1 ELSE inQueue
  /\ UNCHANGED <<Kinds, next, dispatchQ, fusionQ, txOpen, exited, filePos, segs, addr, writerDone, wfail, mainSt>>
WorkerFail(w) ==                                       \* run() returns Err: the thread ends, counter untouched
  /\ WorkerFaults /\ w \notin dead /\ busy[w] # Unset
  /\ dead' = dead \cup {w}
  /\ busy' = [busy EXCEPT ![w] = Unset]
  /\ inQueue' = IF DecOnFail THEN inQueue - 1 ELSE inQueue
  /\ UNCHANGED <<Kinds, next, dispatchQ, fusionQ, txOpen, exited, filePos, segs, addr, writerDone, wfail, mainSt>>
MainPanicRaw ==
  /\ mainSt = "run" /\ wfail /\ txOpen /\ next < N /\ Kinds[next + 1] = "raw"
  /\ mainSt' = "fail" /\ txOpen' = FALSE               \* unwinding drops both senders
  /\ UNCHANGED <<Kinds, next, dispatchQ, fusionQ, inQueue, busy, exited, filePos, segs, addr, writerDone, wfail, dead>>
MainPanicComp ==
  /\ mainSt = "run" /\ Alive = {} /\ txOpen /\ next < N /\ Kinds[next + 1] = "comp"
  /\ inQueue < MaxQueue                                \* the wait comes first
  /\ inQueue' = inQueue + 1
  /\ mainSt' = "fail" /\ txOpen' = FALSE
  /\ UNCHANGED <<Kinds, next, dispatchQ, fusionQ, busy, exited, filePos, segs, addr, writerDone, wfail, dead>>
MainJoin ==
  /\ mainSt = "closed" /\ (exited \cup dead) = Workers /\ (writerDone \/ wfail)
  /\ mainSt' = IF dead # {} \/ wfail THEN "fail" ELSE "ok"
  /\ UNCHANGED <<vars, wfail, dead>>

FNext == FMainSendRaw \/ FMainSendComp \/ FMainClose \/ FWriterStep \/ FWriterExit
         \/ WriterFail \/ MainPanicRaw \/ MainPanicComp \/ MainJoin
         \/ \E w \in Workers : FWorkerTake(w) \/ FWorkerDone(w) \/ FWorkerExit(w) \/ WorkerPanic(w) \/ WorkerFail(w)
FSpec == FInit /\ [][FNext]_fvars
FFairSpec == FSpec /\ WF_fvars(FMainSendRaw) /\ WF_fvars(FMainSendComp) /\ WF_fvars(FMainClose) /\ WF_fvars(FWriterStep)
             /\ WF_fvars(FWriterExit) /\ WF_fvars(MainPanicRaw) /\ WF_fvars(MainPanicComp) /\ WF_fvars(MainJoin)
             /\ \A w \in Workers : WF_fvars(FWorkerTake(w)) /\ WF_fvars(FWorkerDone(w)) /\ WF_fvars(FWorkerExit(w))
                                   /\ WF_fvars(WorkerPanic(w))
             \* (WriterFail is not fair: a fault may or may not happen)

(* ------------------------------------------------------------------ properties *)
FTypeOK == wfail \in BOOLEAN /\ dead \subseteq Workers /\ mainSt \in {"run", "closed", "ok", "fail"}
(* success is reported only when nothing failed and every cluster is written and addressed *)
OkMeansComplete == mainSt = "ok" => (~wfail /\ dead = {} /\ writerDone /\ Len(addr) = N /\ Written = Ids)
(* ... and a cluster lost in a worker that failed is never papered over: the writer ends well only if nobody died *)
WriterEndsWellOnlyIfComplete == writerDone => (dead = {} => Written = Ids)
(* a failure of the writer is never turned into success *)
FailureReported == (wfail /\ mainSt \in {"ok", "fail"}) => mainSt = "fail"
(* what reached the file before the failure is what the fault-free machine writes *)
PrefixSafe == QueueBound /\ WrittenOnce /\ NoOverlap /\ AddressPointsToOwnTail
(* the main thread waits for room in the queue and nothing can ever make room *)
MainWaiting == mainSt = "run" /\ txOpen /\ next < N /\ Kinds[next + 1] = "comp" /\ inQueue >= MaxQueue
Stuck == MainWaiting /\ dead = Workers
NeverStuck == ~Stuck
Settles == <>(mainSt \in {"ok", "fail"})
(* without a fault the extension is the original machine *)
NoFaultIsOk == (MaxFaults = 0 /\ ~WorkerFaults) => [](mainSt \in {"run", "closed", "ok"})
=============================================================================
