CONSTANTS
  Radix = 4
  Bound = 80
SPECIFICATION Spec
