CONSTANTS
  N = 4
  MaxViews = 4
  MaxReads = 2
  ReadSizes = {0, 1, 3, 9}
SPECIFICATION Spec
INVARIANTS Nested Sizes ConversionsAgree ObsInside
CHECK_DEADLOCK FALSE
