------------------------------ MODULE Integrity ------------------------------
(* Blocks, checks and what every reader operation verifies before it parses
   (bases/{block,reader,write}.rs, bases/io, common/check.rs, reader).
   Properties C04, C05, C06.

   A file is a set of blocks.  Each block has a payload, possibly a CRC, belongs to a pack, lies
   inside or outside the range that pack's global hash covers, and may contain exempt bytes (the
   rewritable location of a manifest's pack info together with that block's CRC).  Damage is a
   set of (block, part) pairs, or a truncation that removes every block ending after a point.
   A reader operation depends on a set of blocks; what it yields is a function of the damage
   on those blocks and of what the design verifies first:

     - every structural block is CRC-verified when it is cut (parse_block_at, parse_block_in, cut_check);
       the only bytes used without verification are cluster data (content bytes);
     - check() reads the check block (CRC-verified) and hashes [0, checkInfoPos) - with the
       exempt bytes read as zero for a manifest;
     - every cut must lie inside its source, every read must deliver all its bytes (guards). *)
EXTENDS Naturals, Sequences, FiniteSets, TLC

CONSTANTS MaxDamage        \* how many (block, part) pairs may be damaged at once

(* ---- a representative one-file container: container pack C holding m, d, c ---- *)
Packs == {"C", "m", "d", "c"}
(* [id, pack, verified (CRC checked before use), hashed (inside its pack's checked range),
    exempt (has bytes the manifest hash ignores), content (cluster data), order (position)] *)
B(id, pack, verified, hashed, exempt, content, order) ==
  [id |-> id, pack |-> pack, verified |-> verified, hashed |-> hashed, exempt |-> exempt, content |-> content, order |-> order]
Blocks == {
  B("C.header", "C", TRUE, FALSE, FALSE, FALSE, 1), B("C.cheader", "C", TRUE, FALSE, FALSE, FALSE, 2),
  B("c.header", "c", TRUE, TRUE, FALSE, FALSE, 3), B("c.cheader", "c", TRUE, TRUE, FALSE, FALSE, 4),
  B("c.data", "c", FALSE, TRUE, FALSE, TRUE, 5), B("c.ctail", "c", TRUE, TRUE, FALSE, FALSE, 6),
  B("c.cptrs", "c", TRUE, TRUE, FALSE, FALSE, 7), B("c.infos", "c", TRUE, TRUE, FALSE, FALSE, 8),
  B("c.check", "c", TRUE, FALSE, FALSE, FALSE, 9), B("c.tail", "c", FALSE, FALSE, FALSE, FALSE, 10),
  B("d.header", "d", TRUE, TRUE, FALSE, FALSE, 11), B("d.dheader", "d", TRUE, TRUE, FALSE, FALSE, 12),
  B("d.index", "d", TRUE, TRUE, FALSE, FALSE, 13), B("d.edata", "d", TRUE, TRUE, FALSE, FALSE, 14),
  B("d.etail", "d", TRUE, TRUE, FALSE, FALSE, 15), B("d.vdata", "d", TRUE, TRUE, FALSE, FALSE, 16),
  B("d.vtail", "d", TRUE, TRUE, FALSE, FALSE, 17), B("d.ptrs", "d", TRUE, TRUE, FALSE, FALSE, 18),
  B("d.check", "d", TRUE, FALSE, FALSE, FALSE, 19), B("d.tail", "d", FALSE, FALSE, FALSE, FALSE, 20),
  B("m.header", "m", TRUE, TRUE, FALSE, FALSE, 21), B("m.mheader", "m", TRUE, TRUE, FALSE, FALSE, 22),
  B("m.copies", "m", TRUE, TRUE, FALSE, FALSE, 23), B("m.vstore", "m", TRUE, TRUE, FALSE, FALSE, 24),
  B("m.infos", "m", TRUE, TRUE, TRUE, FALSE, 25),
  B("m.check", "m", TRUE, FALSE, FALSE, FALSE, 26), B("m.tail", "m", FALSE, FALSE, FALSE, FALSE, 27),
  B("C.locators", "C", TRUE, FALSE, FALSE, FALSE, 28), B("C.check", "C", TRUE, FALSE, FALSE, FALSE, 29),
  B("C.tail", "C", FALSE, FALSE, FALSE, FALSE, 30) }
BlockOf(id) == CHOOSE b \in Blocks : b.id = id
(* parts of a block that can be damaged: its payload, its exempt bytes (if any), its CRC *)
Parts == {<<b.id, "payload">> : b \in Blocks} \cup {<<b.id, "crc">> : b \in {x \in Blocks : x.verified}}
         \cup {<<b.id, "exempt">> : b \in {x \in Blocks : x.exempt}}
LastOrder == 30

VARIABLES damage,   \* set of parts
          trunc     \* 0 = not truncated, k = every block of order >= k is gone (cut in the middle of block k)
vars == <<damage, trunc>>

Init == \/ /\ trunc = 0 /\ damage \in (IF MaxDamage >= 2 THEN {{a, b} : a \in Parts, b \in Parts} ELSE {{a} : a \in Parts}) \cup {{}}
        \/ /\ damage = {} /\ trunc \in 1..LastOrder
Next == UNCHANGED vars
Spec == Init /\ [][Next]_vars

Damaged(id) == \E p \in damage : p[1] = id
Gone(id) == trunc # 0 /\ BlockOf(id).order >= trunc
(* a CRC-verified block reads as an error when any of its bytes (payload, exempt bytes or CRC)
   changed or it is not fully there; an unverified one reads as other bytes *)
ReadsErr(id) == (BlockOf(id).verified /\ Damaged(id)) \/ Gone(id)

(* ---- reader operations: the blocks they need ---- *)
OpenDeps == {"C.header", "C.cheader", "C.locators", "m.header", "m.mheader", "m.infos", "m.vstore",
             "d.header", "d.dheader", "d.ptrs"}
EntriesDeps == OpenDeps \cup {"d.index", "d.etail", "d.edata", "d.vtail", "d.vdata"}
ContentDeps == OpenDeps \cup {"c.header", "c.cheader", "c.cptrs", "c.infos", "c.ctail"}

Outcome(deps) == IF \E id \in deps : ReadsErr(id) THEN "err" ELSE "same"
Open == Outcome(OpenDeps)
Entries == Outcome(EntriesDeps)
(* content bytes: verified structure, unverified data *)
Content == IF Outcome(ContentDeps) = "err" \/ Gone("c.data") THEN "err"
           ELSE IF Damaged("c.data") THEN "differs_or_err" ELSE "same"

(* check(p): the check block is read (verified), then [0, checkInfoPos) is hashed; for the
   manifest the exempt bytes are read as zero *)
HashSees(p) == \E prt \in damage : BlockOf(prt[1]).pack = p /\ BlockOf(prt[1]).hashed
                                   /\ ~(prt[2] = "exempt" \/ (prt[2] = "crc" /\ BlockOf(prt[1]).exempt))
PackGone(p) == \E b \in Blocks : b.pack = p /\ Gone(b.id) /\ (b.hashed \/ b.id = p \o ".check")
Check(p) == IF ReadsErr(p \o ".check") \/ PackGone(p) \/ ReadsErr(p \o ".header") THEN "err"
            ELSE IF HashSees(p) THEN "false" ELSE "true"
(* Container::check: manifest, directory, then every located pack *)
ContainerCheck == IF Open = "err" THEN "err"
                  ELSE IF \E p \in {"m", "d", "c"} : Check(p) = "err" THEN "err"
                  ELSE IF \E p \in {"m", "d", "c"} : Check(p) = "false" THEN "false" ELSE "true"

(* ---- properties ---- *)
(* bytes a pack's checksum covers: its hashed blocks except the exempt bytes, and its check block *)
Covered(prt) == LET b == BlockOf(prt[1]) IN
  \/ (b.hashed /\ ~(prt[2] = "exempt") /\ ~(prt[2] = "crc" /\ b.exempt))
  \/ b.id \in {"c.check", "d.check", "m.check"}
PristineVerifies == (damage = {} /\ trunc = 0) => (ContainerCheck = "true" /\ \A p \in {"m", "d", "c"} : Check(p) = "true")
(* C04 *)
CoveredDamageDetected ==
  \A prt \in damage : Covered(prt) => (Check(BlockOf(prt[1]).pack) # "true" /\ ContainerCheck # "true")
(* C05: structure is identical or an error; only content bytes may differ, and then the check fails *)
StructureNeverSilentlyWrong ==
  /\ Open \in {"same", "err"} /\ Entries \in {"same", "err"}
  /\ Content = "differs_or_err" => Check("c") # "true"
(* the exemption is exactly the location bytes: damaging only them changes no check *)
ExemptIsExempt == (damage # {} /\ \A prt \in damage : prt = <<"m.infos", "exempt">>) => Check("m") = "true"
(* C06: every operation has an outcome that is a value or an error *)
OutcomeIsValueOrError ==
  /\ Open \in {"same", "err"} /\ Entries \in {"same", "err"} /\ Content \in {"same", "err", "differs_or_err"}
  /\ ContainerCheck \in {"true", "false", "err"}
(* a truncated file never yields a silently different structure *)
TruncationIsError == trunc # 0 => (\A id \in OpenDeps : Gone(id) => Open = "err")
=============================================================================
